#!/usr/bin/env python3
"""Validate MANIFEST.json and evidence/*.json against the schemas (needs python3-vt for jsonschema)."""
import glob, json, sys
import jsonschema
ok = True
def v(path, schema):
    global ok
    try:
        jsonschema.validate(json.load(open(path)), json.load(open(schema)))
    except Exception as e:
        ok = False
        print('INVALID', path, str(e)[:400])
v('/verif/MANIFEST.json', '/root/.vp/MANIFEST.schema.json')
for f in sorted(glob.glob('/verif/evidence/*.json')):
    v(f, '/root/.vp/EVIDENCE.schema.json')
print('all valid' if ok else 'INVALID FILES')
sys.exit(0 if ok else 1)
