#!/usr/bin/env python3
"""Driver of the /verif checks.

    check <Cxx> quick|thorough          run a check (exit 0 held / 1 violation / 2 inconclusive)
    check <Cxx> --replay <file>         re-execute one saved scenario, bypassing the PBT library
    check setup                         stage, pre-build every test binary (MANIFEST.setup_cmd)
    check clean                         remove generated programs, binaries, work directories

Everything random is derived from VERIF_SEED; VERIF_REPO (default /repo) is the tree under test.
"""
import hashlib
import json
import os
import shutil
import subprocess
import sys
import time
from concurrent.futures import ThreadPoolExecutor

ROOT = os.path.dirname(os.path.dirname(os.path.abspath(__file__)))
H = os.path.join(ROOT, 'harness')
REPO = os.path.abspath(os.environ.get('VERIF_REPO', '/repo'))
KEY = 'default' if REPO == '/repo' else hashlib.sha1(REPO.encode()).hexdigest()[:10]
GO = shutil.which('go1.26.8') or '/usr/local/bin/go1.26.8'
NCPU = os.cpu_count() or 4

sys.path.insert(0, os.path.dirname(os.path.abspath(__file__)))
from props import PROPS  # noqa: E402


def goenv(extra=None):
    e = dict(os.environ)
    e.update(GOFLAGS='-mod=mod', GOPROXY='off', GOSUMDB='off', GOTOOLCHAIN='local', GONOSUMDB='*', GONOSUMCHECK='1')
    e.pop('GOWORK', None)
    e['GOWORK'] = 'off'
    if KEY != 'default' and not os.environ.get('VERIF_KEEP_GOCACHE'):
        # runs against scratch copies of the repository (seeded changes, mutants) get a build cache of their own,
        # which tools/seed_matrix.sh and tools/mutants.py delete afterwards: every scratch path would otherwise leave
        # its own copy of every compiled package in the main cache
        e['GOCACHE'] = '/root/.cache/go-build-verif-scratch'
    if extra:
        e.update({k: str(v) for k, v in extra.items()})
    return e


def seed():
    try:
        s = int(os.environ.get('VERIF_SEED', '1'))
    except ValueError:
        s = 1
    s = abs(s) % (1 << 40)
    return s if s != 0 else 7777777  # rapid treats 0 as "random"


def shard_seed(base, part_index, shard):
    v = (base * 1000003 + part_index * 7919 + shard) % ((1 << 62) - 1)
    return v if v != 0 else 1


# ----------------------------------------------------------------------------- staging

STAGED = {
    'maplike': ('internal/maplike', 'github.com/fogfish/golem/maplike',
                ['github.com/fogfish/golem/pure v0.10.1']),
    'seq': ('internal/seq', 'github.com/fogfish/golem/seq',
            ['github.com/fogfish/golem/pure v0.10.1']),
    'purepipe': ('internal/pipe', 'verif.stage/purepipe', []),
}


def write_if_changed(path, data):
    if isinstance(data, str):
        data = data.encode()
    try:
        with open(path, 'rb') as f:
            if f.read() == data:
                return
    except OSError:
        pass
    os.makedirs(os.path.dirname(path), exist_ok=True)
    tmp = path + '.tmp%d.%d' % (os.getpid(), __import__('threading').get_ident())
    with open(tmp, 'wb') as f:
        f.write(data)
    os.replace(tmp, path)


_stage_lock = __import__('threading').Lock()
_staged = None


def stage():
    """Staging happens once per driver process (threads share the result)."""
    global _staged
    with _stage_lock:
        if _staged is None:
            _staged = _stage()
        return _staged


def _stage():
    """Copy the non-test sources of /repo/internal/... into modules named after the
    import paths those sources use, and write the -modfile that points at REPO."""
    base = os.path.join(H, '.stage', KEY)
    for name, (src, modpath, reqs) in STAGED.items():
        dst = os.path.join(base, name)
        srcroot = os.path.join(REPO, src)
        want = {}
        for d, _, files in os.walk(srcroot):
            rel = os.path.relpath(d, srcroot)
            if rel.split(os.sep)[0] == 'seqtest':
                continue
            for f in files:
                if f.endswith('.go') and not f.endswith('_test.go'):
                    want[os.path.normpath(os.path.join(rel, f))] = open(os.path.join(d, f), 'rb').read()
        gomod = 'module %s\n\ngo 1.22\n' % modpath
        if reqs:
            gomod += '\nrequire (\n' + ''.join('\t%s\n' % r for r in reqs) + ')\n'
        want['go.mod'] = gomod.encode()
        # remove stale files
        if os.path.isdir(dst):
            for d, _, files in os.walk(dst):
                for f in files:
                    rel = os.path.normpath(os.path.relpath(os.path.join(d, f), dst))
                    if rel not in want:
                        os.remove(os.path.join(d, f))
        for rel, data in want.items():
            write_if_changed(os.path.join(dst, rel), data)
    mod = open(os.path.join(H, 'go.mod')).read()
    mod = mod.replace('=> /repo/', '=> %s/' % REPO).replace('./.stage/default/', '%s/' % base)
    write_if_changed(os.path.join(H, '.mod', KEY + '.mod'), mod)
    write_if_changed(os.path.join(H, '.mod', KEY + '.sum'), open(os.path.join(H, 'go.sum'), 'rb').read())
    return os.path.join(H, '.mod', KEY + '.mod')


def build(pkg, race=False, tags='verif'):
    """go test -c for one harness package against REPO's working tree."""
    modfile = stage()
    out = os.path.join(H, '.bin', KEY, pkg.replace('/', '_') + ('.race' if race else '') + '.test')
    os.makedirs(os.path.dirname(out), exist_ok=True)
    cmd = [GO, 'test', '-c', '-modfile=' + modfile, '-tags', tags, '-vet=off', '-o', out]
    if race:
        cmd.append('-race')
    cmd.append('./' + pkg)
    p = subprocess.run(cmd, cwd=H, env=goenv(), stdout=subprocess.PIPE, stderr=subprocess.STDOUT, text=True)
    if p.returncode != 0:
        return None, p.stdout
    return out, p.stdout


# ----------------------------------------------------------------------------- running

class Outcome:
    def __init__(self):
        self.stats = []          # stats.json dicts
        self.hashfiles = []
        self.failures = []       # (Failure dict, source description)
        self.inconclusive = []   # strings
        self.logs = []


def run_proc(binary, test, outdir, env, args, timeout):
    os.makedirs(outdir, exist_ok=True)
    # VERIF_NO_GO_TIMEOUT: no timer inside the test binary, so that the Go runtime itself reports a self-deadlock of purely
    # sequential code ("all goroutines are asleep") - a verdict, unlike a timeout; the driver's own timeout still applies
    gt = '0' if env.get('VERIF_NO_GO_TIMEOUT') else '%ds' % timeout
    cmd = [binary, '-test.run', '^%s$' % test, '-test.timeout', gt, '-test.count=1'] + args
    e = goenv(env)
    e['VERIF_OUT'] = outdir
    try:
        p = subprocess.run(cmd, cwd=outdir, env=e, stdout=subprocess.PIPE, stderr=subprocess.STDOUT,
                           text=True, errors='replace', timeout=timeout + 60)
        return p.returncode, p.stdout
    except subprocess.TimeoutExpired as ex:
        return -999, (ex.stdout or '') if isinstance(ex.stdout, str) else ''


def classify(rc, out, outdir, what, oc, binary, test, env):
    """Turn one child's result into stats / failure / inconclusive."""
    tail = out[-3000:]
    sj = os.path.join(outdir, 'stats.json')
    if os.path.exists(sj):
        try:
            oc.stats.append(json.load(open(sj)))
            oc.hashfiles.append(os.path.join(outdir, 'hashes.bin'))
        except Exception:
            pass
    if rc == 0:
        return
    fj = os.path.join(outdir, 'fail.json')
    if os.path.exists(fj):
        oc.failures.append((json.load(open(fj)), what, tail))
        return
    died = ('panic:' in out or 'fatal error:' in out or 'unexpected signal' in out or 'SIGSEGV' in out
            or 'DATA RACE' in out)
    timed = rc == -999 or 'test timed out' in out or 'panic: test timed out' in out
    jj = os.path.join(outdir, 'journal.json')
    if timed:
        oc.inconclusive.append('%s: timeout\n%s' % (what, tail))
        return
    if died and os.path.exists(jj):
        try:
            j = json.load(open(jj))
        except Exception:
            oc.inconclusive.append('%s: process died, journal unreadable\n%s' % (what, tail))
            return
        j['message'] = 'process died (library panic / fatal error / race report) while executing this scenario:\n' + crash_excerpt(out)
        oc.failures.append((j, what + ' [crash]', tail))
        return
    oc.inconclusive.append('%s: exit %s without a recorded failing case\n%s' % (what, rc, tail))


def crash_excerpt(out):
    lines = out.splitlines()
    for i, l in enumerate(lines):
        if l.startswith('panic:') or l.startswith('fatal error:') or 'DATA RACE' in l or 'unexpected signal' in l:
            return '\n'.join(lines[i:i + 14])
    return '\n'.join(lines[-14:])


def build_tool(name):
    out = os.path.join(H, '.bin', 'tools', name)
    os.makedirs(os.path.dirname(out), exist_ok=True)
    modfile = stage()
    p = subprocess.run([GO, 'build', '-modfile=' + modfile, '-o', out, './cmd/' + name], cwd=H, env=goenv(),
                       stdout=subprocess.PIPE, stderr=subprocess.STDOUT, text=True)
    return (out if p.returncode == 0 else None), p.stdout


def gen_packages(kind, seed_value, shapes, pkgs, tag, spec=None):
    """Emit generated shape programs (engine E1) below harness/gen/<tag>/ and return their package paths."""
    tool, log = build_tool('shapegen')
    if tool is None:
        return None, log
    outdir = os.path.join(H, 'gen', tag)
    shutil.rmtree(outdir, ignore_errors=True)
    cmd = [tool, '-out', outdir, '-kind', kind]
    if spec:
        cmd += ['-spec', spec]
    else:
        cmd += ['-seed', str(seed_value), '-shapes', str(shapes), '-pkgs', str(pkgs)]
    p = subprocess.run(cmd, cwd=H, env=goenv(), stdout=subprocess.PIPE, stderr=subprocess.STDOUT, text=True)
    if p.returncode != 0:
        return None, p.stdout
    return sorted('gen/%s/%s' % (tag, d) for d in os.listdir(outdir)), ''


def run_gen_part(prop, pi, part, tier, base_seed, work, oc):
    t = part[tier]
    tag = 's%d-%s-%s-%s' % (base_seed, tier, part['gen'], KEY)
    pkgs, log = gen_packages(part['gen'], base_seed, t['shapes'], t['pkgs'], tag)
    if pkgs is None:
        oc.inconclusive.append('shape generator failed:\n' + log[-3000:])
        return
    timeout = t.get('timeout', 900)

    def one(i_pkg):
        i, pkg = i_pkg
        binary, blog = build(pkg)
        if binary is None:
            return i, pkg, None, blog
        env = dict(part.get('env', {}))
        env.update(VERIF_TIER=tier, VERIF_PROP=prop, VERIF_SHARD=i)
        outdir = os.path.join(work, '%s-%d' % (part['name'], i))
        args = ['-rapid.checks=%d' % t['draws'], '-rapid.seed=%d' % shard_seed(base_seed, pi, i), '-rapid.nofailfile', '-rapid.shrinktime=10s']
        rc, out = run_proc(binary, 'TestShapes', outdir, env, args, timeout)
        return i, pkg, (rc, out, outdir, binary, env), ''
    with ThreadPoolExecutor(max_workers=min(NCPU, 8)) as ex:
        for i, pkg, res, blog in ex.map(one, list(enumerate(pkgs))):
            what = '%s/%s package %d' % (prop, part['name'], i)
            if res is None:
                oc.inconclusive.append('build of generated package %s against %s failed:\n%s' % (pkg, REPO, blog[-4000:]))
                continue
            rc, out, outdir, binary, env = res
            classify(rc, out, outdir, what, oc, binary, 'TestShapes', env)
            oc.logs.append((what, rc, out[-1500:]))
    shutil.rmtree(os.path.join(H, '.bin', KEY, 'gen_' + tag), ignore_errors=True)


def run_fuzz_part(prop, pi, part, tier, base_seed, work, oc):
    """Coverage-guided sweep: Go's native fuzzer over rapid.MakeFuzz(property).  It cannot be pinned to a seed;
    the reproducible unit of anything it finds is the scenario the property itself saved (fail.json)."""
    import re
    t = part[tier]
    modfile = stage()
    outdir = os.path.join(work, part['name'])
    os.makedirs(outdir, exist_ok=True)
    crashers = os.path.join(H, part['pkg'], 'testdata')
    shutil.rmtree(crashers, ignore_errors=True)
    cmd = [GO, 'test', '-modfile=' + modfile, '-tags', 'verif', '-vet=off', '-run', '^$', '-fuzz', '^%s$' % part['test'],
           '-fuzztime', '%dx' % t['execs'], './' + part['pkg']]
    env = goenv(dict(VERIF_OUT=outdir, VERIF_PROP=prop, VERIF_TIER=tier))
    timeout = t.get('timeout', 1800)
    try:
        p = subprocess.run(cmd, cwd=H, env=env, stdout=subprocess.PIPE, stderr=subprocess.STDOUT, text=True, errors='replace', timeout=timeout)
        rc, out = p.returncode, p.stdout
    except subprocess.TimeoutExpired as ex:
        rc, out = -999, (ex.stdout or '') if isinstance(ex.stdout, str) else ''
    shutil.rmtree(crashers, ignore_errors=True)
    what = '%s/%s' % (prop, part['name'])
    execs = [int(x) for x in re.findall(r'execs: (\d+)', out)]
    inter = [int(x) for x in re.findall(r'new interesting: (\d+)', out)]
    oc.stats.append({'evaluations': execs[-1] if execs else 0, 'nontrivial': 0,
                     'classes': {'coverage-guided-fuzz-execs': execs[-1] if execs else 0, 'fuzz-new-interesting-inputs': inter[-1] if inter else 0},
                     'notes': ['the coverage-guided part counts executions only; non-triviality and distinctness are measured on the rapid and enumeration parts']})
    oc.logs.append((what, rc, out[-1500:]))
    if rc == 0:
        return
    fj = os.path.join(outdir, 'fail.json')
    if os.path.exists(fj):
        oc.failures.append((json.load(open(fj)), what + ' [coverage-guided fuzzing]', out[-3000:]))
    elif rc == -999:
        oc.inconclusive.append('%s: timeout' % what)
    else:
        oc.inconclusive.append('%s: go test -fuzz exited %s without a recorded failing case\n%s' % (what, rc, out[-3000:]))


def run_part(prop, pi, part, tier, base_seed, work, oc):
    t = part.get(tier)
    if not t:
        return
    if part.get('kind') == 'gen':
        return run_gen_part(prop, pi, part, tier, base_seed, work, oc)
    if part.get('kind') == 'fuzz':
        return run_fuzz_part(prop, pi, part, tier, base_seed, work, oc)
    binary, blog = build(part['pkg'], race=part.get('race', False))
    if binary is None:
        oc.inconclusive.append('build of harness package %s against %s failed:\n%s' % (part['pkg'], REPO, blog[-4000:]))
        return
    shards = t.get('shards', 1)
    cases = t.get('cases', 0)
    timeout = t.get('timeout', 900)
    jobs = []
    for s in range(shards):
        env = dict(part.get('env', {}))
        env.update(t.get('env', {}))
        env.update(VERIF_TIER=tier, VERIF_PROP=prop, VERIF_CASES=cases, VERIF_SHARD=s, VERIF_SHARDS=shards,
                   VERIF_SEED_EFF=shard_seed(base_seed, pi, s))
        if not part.get('race') and shards >= 4 and part['pkg'] == 'pipes' and not os.environ.get('VERIF_NOPIN'):
            # one shard on one processor (and one on two when there are many): other wake-up orders inside the same scripts
            procs = {1: '1', 11: '2'}.get(s)
            if procs:
                env['VERIF_GOMAXPROCS'] = procs
        args = []
        if part.get('kind', 'rapid') == 'rapid':
            args = ['-rapid.checks=%d' % cases, '-rapid.seed=%d' % shard_seed(base_seed, pi, s), '-rapid.nofailfile',
                    '-rapid.shrinktime=%s' % t.get('shrinktime', '20s')]
            if t.get('steps'):
                args.append('-rapid.steps=%d' % t['steps'])
        outdir = os.path.join(work, '%s-%d' % (part['name'], s))
        jobs.append((binary, part['test'], outdir, env, args, timeout, '%s/%s shard %d' % (prop, part['name'], s)))

    def one(j):
        binary, test, outdir, env, args, timeout, what = j
        rc, out = run_proc(binary, test, outdir, env, args, timeout)
        return j, rc, out
    with ThreadPoolExecutor(max_workers=min(NCPU, max(1, len(jobs)))) as ex:
        for j, rc, out in ex.map(one, jobs):
            classify(rc, out, j[2], j[6], oc, j[0], j[1], j[3])
            oc.logs.append((j[6], rc, out[-1500:]))


def count_distinct(hashfiles):
    import array
    a = array.array('Q')
    for f in hashfiles:
        try:
            with open(f, 'rb') as fh:
                b = fh.read()
            a.frombytes(b[:len(b) // 8 * 8])
        except OSError:
            pass
    if len(a) == 0:
        return 0
    try:
        import numpy as np  # optional, only for speed
        return int(np.unique(np.frombuffer(a.tobytes(), dtype=np.uint64)).size)
    except Exception:
        return len(set(a))


def replay_gen(prop, part, path):
    tag = 'replay-%d-%d' % (os.getpid(), int(time.time() * 1000) % 100000)
    pkgs, log = gen_packages(part['gen'], 0, 0, 0, tag, spec=os.path.abspath(path))
    if pkgs is None:
        return None, log
    try:
        binary, blog = build(pkgs[0])
        if binary is None:
            return None, blog
        outdir = os.path.join(ROOT, '.work', tag)
        rc, out = run_proc(binary, 'TestShapes', outdir, dict(VERIF_TIER='quick'), ['-rapid.checks=300', '-rapid.seed=%d' % seed(), '-rapid.nofailfile'], 600)
        shutil.rmtree(outdir, ignore_errors=True)
    finally:
        shutil.rmtree(os.path.join(H, 'gen', tag), ignore_errors=True)
        shutil.rmtree(os.path.join(H, '.bin', KEY, ('gen/%s/p0' % tag).replace('/', '_') + '.test'), ignore_errors=True)
        try:
            os.remove(os.path.join(H, '.bin', KEY, ('gen/%s/p0' % tag).replace('/', '_') + '.test'))
        except OSError:
            pass
    if rc == 0:
        return False, out
    if rc == -999 or 'test timed out' in out:
        return None, out
    return True, out


def shrink_e1(prop, part, fail, max_rounds=20):
    """Greedy shape shrinking for a finding of engine E1: all smaller variants of the failing (shape, request) pair
    are emitted into one package; the first variant that still fails becomes the new current scenario."""
    tool, _ = build_tool('shapegen')
    if tool is None:
        return fail
    cur = fail
    for rnd in range(max_rounds):
        tag = 'shrink-%d-%d' % (os.getpid(), rnd)
        tmp = os.path.join(ROOT, '.work', tag + '.json')
        os.makedirs(os.path.dirname(tmp), exist_ok=True)
        json.dump(cur, open(tmp, 'w'))
        outdir = os.path.join(H, 'gen', tag)
        shutil.rmtree(outdir, ignore_errors=True)
        p = subprocess.run([tool, '-shrink', tmp, '-out', outdir], cwd=H, env=goenv(), stdout=subprocess.PIPE, stderr=subprocess.STDOUT, text=True)
        os.remove(tmp)
        if p.returncode != 0 or not os.path.isdir(os.path.join(outdir, 'p0')):
            shutil.rmtree(outdir, ignore_errors=True)
            break
        pkg = 'gen/%s/p0' % tag
        binary, blog = build(pkg)
        nxt = None
        if binary is not None:
            wd = os.path.join(ROOT, '.work', tag)
            rc, out = run_proc(binary, 'TestShapes', wd, dict(VERIF_TIER='quick'), ['-rapid.checks=60', '-rapid.seed=%d' % seed(), '-rapid.nofailfile', '-rapid.shrinktime=5s'], 300)
            fj = os.path.join(wd, 'fail.json')
            if rc != 0 and os.path.exists(fj):
                nxt = json.load(open(fj))
            shutil.rmtree(wd, ignore_errors=True)
            try:
                os.remove(binary)
            except OSError:
                pass
        shutil.rmtree(outdir, ignore_errors=True)
        if nxt is None:
            break
        nxt['property'] = prop
        nxt['shrunk_from'] = cur.get('shrunk_from', 0) + 1
        cur = nxt
    return cur


def replay_file(prop, part, path, attempts=None):
    """Run one saved scenario through the plain executor (TestReplay*). Returns (failed, output)."""
    if part.get('kind') == 'gen':
        return replay_gen(prop, part, path)
    binary, blog = build(part['pkg'], race=part.get('race', False))
    if binary is None:
        return None, blog
    outdir = os.path.join(ROOT, '.work', 'replay-%d-%d' % (os.getpid(), int(time.time() * 1000) % 100000))
    env = dict(part.get('env', {}))
    env.update(VERIF_REPLAY=os.path.abspath(path), VERIF_PROP=prop, VERIF_TIER='quick')
    try:
        attempts = attempts or json.load(open(path)).get('replay_attempts')
    except Exception:
        pass
    if attempts:
        env['VERIF_REPLAY_ATTEMPTS'] = attempts
    rc, out = run_proc(binary, part.get('replay_test', 'TestReplay'), outdir, env, [], 300)
    shutil.rmtree(outdir, ignore_errors=True)
    if rc == 0:
        return False, out
    if rc == -999 or 'test timed out' in out:
        return None, out
    return True, out


def load_known():
    p = os.path.join(ROOT, 'known_findings.json')
    if not os.path.exists(p):
        return []
    return json.load(open(p)).get('findings', [])


def part_for_failure(prop, fail):
    cfg = PROPS[prop]
    sc = fail.get('scenario') or {}
    if isinstance(sc, dict) and sc.get('engine') == 'E1':
        for part in cfg['parts']:
            if part.get('kind') == 'gen':
                return part
    for part in cfg['parts']:
        if part['test'] == fail.get('test') or part.get('replay_test') == fail.get('test'):
            return part
    for part in cfg['parts']:
        if fail.get('test', '').startswith(part['test']):
            return part
    return cfg['parts'][0]


def check(prop, tier):
    t0 = time.time()
    cfg = PROPS[prop]
    base_seed = seed()
    work = os.path.join(ROOT, '.work', '%s-%s-%d' % (prop, tier, os.getpid()))
    shutil.rmtree(work, ignore_errors=True)
    os.makedirs(work)
    oc = Outcome()
    known = [k for k in load_known() if k.get('property') == prop]
    known_lines = []
    violations = []

    # 1. regress tier: committed minimal reproductions, executed without the PBT library
    regdir = os.path.join(ROOT, 'replays', 'regress', prop)
    regress_run = 0
    if os.path.isdir(regdir):
        for f in sorted(os.listdir(regdir)):
            if not f.endswith('.json'):
                continue
            path = os.path.join(regdir, f)
            fail = json.load(open(path))
            part = part_for_failure(prop, fail)
            failed, out = replay_file(prop, part, path)
            regress_run += 1
            if failed is None:
                oc.inconclusive.append('regress replay %s inconclusive:\n%s' % (f, out[-2000:]))
            elif failed:
                k = next((k for k in known if k.get('status') == 'known' and k.get('regress') == f), None)
                if k:
                    known_lines.append('KNOWN-FINDING: property=%s %s' % (prop, k['what']))
                else:
                    violations.append((path, 'regress scenario %s fails again:\n%s' % (f, crash_excerpt(out))))

    # 2. generated search
    for pi, part in enumerate(cfg['parts']):
        run_part(prop, pi, part, tier, base_seed, work, oc)

    # 3. failures -> replay files
    founddir = os.path.join(ROOT, 'replays', 'found') if KEY == 'default' else os.path.join(ROOT, '.work', 'found-' + KEY)
    seen_msgs = set()
    for n, (fail, what, tail) in enumerate(oc.failures):
        sig = fail.get('signature') or ''
        mkey = (fail.get('message') or '')[:200]
        if mkey in seen_msgs or len(violations) >= 4:
            continue
        seen_msgs.add(mkey)
        k = next((k for k in known if k.get('status') == 'known' and k.get('signature') and k['signature'] == sig), None)
        if k:
            line = 'KNOWN-FINDING: property=%s %s' % (prop, k['what'])
            if line not in known_lines:
                known_lines.append(line)
            continue
        os.makedirs(founddir, exist_ok=True)
        path = os.path.join(founddir, '%s-%s-seed%d-%d.json' % (prop, tier, base_seed, n))
        sc = fail.get('scenario') or {}
        if isinstance(sc, dict) and sc.get('engine') == 'E1' and not violations and not os.environ.get('VERIF_NOSHRINK'):
            # shapes are shrunk by the driver (values were shrunk by rapid already); only the first finding, it costs compiles
            try:
                fail = shrink_e1(prop, part_for_failure(prop, fail), fail)
            except Exception as ex:  # shrinking is a convenience, never a reason to lose the finding
                fail['shrink_error'] = str(ex)
        fail['property'] = prop
        fail['found_by'] = what
        json.dump(fail, open(path, 'w'), indent=1)
        violations.append((path, fail.get('message', '')))

    # 4. evidence
    ev = evidence(prop, tier, base_seed, cfg, oc, regress_run, violations, known_lines, time.time() - t0)
    evdir = os.path.join(ROOT, 'evidence') if KEY == 'default' else os.path.join(ROOT, '.work', 'evidence-' + KEY)
    os.makedirs(evdir, exist_ok=True)
    json.dump(ev, open(os.path.join(evdir, prop + '.json'), 'w'), indent=1)
    if not os.environ.get('VERIF_KEEP_WORK'):
        shutil.rmtree(work, ignore_errors=True)

    for l in known_lines:
        print(l)
    if violations:
        for path, msg in violations:
            print('--- %s' % msg.strip()[:3000])
            print('VIOLATION property=%s replay=%s' % (prop, path))
        return 1
    if oc.inconclusive:
        for m in oc.inconclusive:
            print('INCONCLUSIVE %s: %s' % (prop, m))
        return 2
    c = ev['coverage']
    print('OK %s %s seed=%d evaluations=%d distinct_nontrivial=%d wall=%.1fs' % (
        prop, tier, base_seed, c['evaluations'], c['distinct_nontrivial'], ev['wall_s']))
    return 0


def evidence(prop, tier, base_seed, cfg, oc, regress_run, violations, known_lines, wall):
    ev_n = sum(s.get('evaluations', 0) for s in oc.stats)
    nontriv_total = sum(s.get('nontrivial', 0) for s in oc.stats)
    distinct = count_distinct(oc.hashfiles)
    classes = {}
    excluded = {}
    samples = []
    exhaustive = set()
    notes = []
    capped = False
    for s in oc.stats:
        for k, v in (s.get('classes') or {}).items():
            classes[k] = classes.get(k, 0) + v
        for k, v in (s.get('excluded') or {}).items():
            excluded[k] = excluded.get(k, 0) + v
        for x in s.get('samples') or []:
            if len(samples) < 8:
                samples.append(x)
        exhaustive.update(s.get('exhaustive') or [])
        for n in s.get('notes') or []:
            if n not in notes:
                notes.append(n)
        capped = capped or s.get('hash_cap_hit', False)
    rule = cfg['rule']
    if capped:
        rule += ' [distinct count is a lower bound: each process hashes at most 2^20 distinct non-trivial cases]'
    cov = {
        'evaluations': int(ev_n),
        'distinct_nontrivial': int(distinct),
        'nontrivial_evaluations': int(nontriv_total),
        'rule': rule,
        'samples': samples,
        'classes': dict(sorted(classes.items())),
        'regress_replays_run': regress_run,
        'parts': [{'name': p['name'], 'engine': p.get('engine', ''), 'test': p['test'], tier: p.get(tier)} for p in cfg['parts'] if p.get(tier)],
        'processes': len(oc.stats),
        'exhaustive': False,
    }
    if exhaustive:
        cov['exhaustive_subspaces'] = sorted(exhaustive)
        cov['explanation'] = 'exhaustive: false refers to the whole quantifier; the listed sub-spaces were enumerated completely by this run'
    if excluded:
        cov['excluded_by_construction'] = excluded
    if notes:
        cov['notes'] = notes
    if known_lines:
        cov['known_findings_reported'] = known_lines
    if oc.inconclusive:
        cov['inconclusive'] = [m[:500] for m in oc.inconclusive]
    return {
        'property_id': prop,
        'tier': tier,
        'seed': base_seed,
        'level': cfg.get('level', 'exploration'),
        'coverage': cov,
        'assumptions': cfg.get('assumptions', []),
        'wall_s': round(wall, 2),
        'violations': len(violations),
        'repo': REPO,
    }


def replay(prop, path):
    fail = json.load(open(path))
    part = part_for_failure(prop, fail)
    failed, out = replay_file(prop, part, path)
    if failed is None:
        print('INCONCLUSIVE replay of %s:\n%s' % (path, out[-3000:]))
        return 2
    if failed:
        print(out[-3000:])
        print('VIOLATION property=%s replay=%s' % (prop, os.path.abspath(path)))
        return 1
    print('OK replay %s: scenario passes' % path)
    return 0


def setup():
    stage()
    seen = set()
    jobs = []
    for prop, cfg in PROPS.items():
        for part in cfg['parts']:
            if part.get('kind') in ('gen', 'fuzz'):
                continue
            k = (part['pkg'], part.get('race', False))
            if k not in seen:
                seen.add(k)
                jobs.append(k)
    bad = 0

    def b(k):
        return k, build(k[0], race=k[1])
    with ThreadPoolExecutor(max_workers=4) as ex:
        for k, (binary, log) in ex.map(b, jobs):
            if binary is None:
                bad += 1
                print('setup: build of %s failed:\n%s' % (k, log[-3000:]))
            else:
                print('setup: built %s%s' % (k[0], ' (race)' if k[1] else ''))
    return 1 if bad else 0


def clean():
    """Remove everything the checks generate and can regenerate (generated programs, test binaries, work dirs, the scratch build cache)."""
    for d in [os.path.join(H, 'gen'), os.path.join(H, '.bin'), os.path.join(H, '.stage'), os.path.join(H, '.mod'), os.path.join(ROOT, '.work'),
              '/root/.cache/go-build-verif-scratch']:
        shutil.rmtree(d, ignore_errors=True)
    print('clean: removed generated programs, binaries, work directories and the scratch build cache')
    return 0


def main(argv):
    if len(argv) >= 2 and argv[1] == 'setup':
        return setup()
    if len(argv) >= 2 and argv[1] == 'clean':
        return clean()
    if len(argv) == 4 and argv[2] == '--replay':
        return replay(argv[1], argv[3])
    if len(argv) == 3 and argv[1] in PROPS and argv[2] in ('quick', 'thorough'):
        return check(argv[1], argv[2])
    print(__doc__)
    return 2


if __name__ == '__main__':
    sys.exit(main(sys.argv))
