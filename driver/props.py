"""Per-property configuration of the checks: which harness package/test decides it, how many
generated cases per tier, the text that goes into the evidence (rule, assumptions) and into
MANIFEST.json (manifest=...).  driver/mkmanifest.py regenerates MANIFEST.json from this file."""

PROPS = {}
MANIFEST_TEXT = {}


def prop(pid, manifest=None, **kw):
    PROPS[pid] = kw
    MANIFEST_TEXT[pid] = manifest


E3_ASSUME = ['executed inside a testing/synctest bubble (go1.26.8): virtual clock, synctest.Wait() = every goroutine durably blocked',
             'select tie-breaks and the run order of goroutines between two quiescent points are chosen by the Go runtime (sampled, not enumerated); oracles accept every outcome the statement allows',
             'user functions are pure, total and honour ctx; element type int']

E1_ASSUME = ['the run-time tier needs the hook hseq.VerifUnfold (build tag verif, add-only file hseq/verif_hook.go); it cannot see a focus behind a pointer being refused because its container type is an opaque Blob',
             'struct shapes and derivation requests are generated as Go source (harness/shapegen, rapid generators through Generator.Example(seed)), compiled against the working tree and run; field values are drawn by rapid at run time',
             'ground truth is the compiler: field addresses come from ordinary selectors (&p.E1.E4.f), layouts from the compiled types',
             'field types range over a fixed universe of 47 types (scalars of every size, strings, slices, pointers, maps, chans, funcs, interfaces, arrays incl. zero-size and 264-byte ones, named types over each class); amd64 only',
             'nil *S arguments and recursive pointer embedding are outside the statements and not generated']

prop('C01',
     level='exploration',
     rule=('generated: struct shapes (1..7 fields per struct, value embedding to depth 4, pointer embedding, nested named structs, embedded non-struct named types, exported/unexported names colliding across depths, hseq tags with keys / empty keys / options / keys colliding with other field names) '
           'and for every focusable field (reached without crossing a pointer) a derivation by name and by type through ForProduct1/ForSpectrum1, plus N-ary derivations ForProductN/ForSpectrumN for drawn N in 2..9 by names in drawn order (same-typed fields preferred so a positional slip passes the type guard) and by types; '
           'each returned optic is exercised with drawn field contents and drawn values inside a canary-guarded arena whose EVERY leaf is filled: oracle = Get equals the bytes at the compiler-computed address; after Put the byte image of the arena (struct, padding, both canary zones, pointees) equals the old image with exactly the focus replaced by the new value; returned pointer identical; GetPut, PutGet, PutPut on images; same through Gett/Putt; '
           ' Second tier (E2): struct shapes that exist only at run time (reflect.StructOf: 1..6 fields per struct, value/pointer embedding to depth 4, unexported names, tags) unfolded by the real unfold through the verif-tagged hook hseq.VerifUnfold and focused with optics.NewLens/NewReflector[Blob, A] for A over a static universe of 47 types; oracle: reflect\'s own addressing (FieldByIndex) for listing offsets and field memory, every OTHER focus type of the universe must be refused for the focused field, byte image of a canary-guarded arena for Put. fixed cases add instantiations of a generic container (ut.Box[int8] / ut.Box[string] unfolded alternately, ut.Wrap[int64] embedding ut.Box[int64]; another instantiation requested as focus must be refused); a separate part (race detector on) derives listings, lenses and reflectors of plain, namesake and generic containers from 2..8 goroutines at once and uses them; one shape in twenty has a 72 KB array as its first member (fields beyond 64 KiB), another one in twenty 64-70 small fields in front and a pointer-embedded struct at the end (listing positions beyond 63); non-trivial = shape with >= 3 listed entries and a focus that is not the first entry or lies inside an embedded struct; distinct = different (shape, request)'),
     assumptions=E1_ASSUME,
     parts=[
         dict(name='parallel', engine='E1', pkg='optpar', test='TestPar', race=True, replay_test='TestReplayPar', env=dict(GORACE='halt_on_error=1'),
              quick=dict(cases=150, shards=1), thorough=dict(cases=4000, shards=4, timeout=3000)),
         dict(name='shapes', engine='E1', kind='gen', gen='lens', pkg='gen', test='TestShapes',
              quick=dict(shapes=12, pkgs=4, draws=25), thorough=dict(shapes=30, pkgs=24, draws=60, timeout=7200)),
         dict(name='dyn', engine='E2', pkg='optdyn', test='TestDyn',
              quick=dict(cases=12000, shards=2), thorough=dict(cases=150000, shards=16, timeout=3000)),
     ],
     manifest=dict(
         engine='E1', design_ref='3/E1, 4/C01',
         technique='property-based testing over generated programs: struct layouts and generic instantiations are emitted as Go source, compiled and run; byte-image frame condition against compiler-computed field addresses, values drawn by rapid',
         level_text=('The quantifier "all struct shapes" is attacked by generating Go programs: every focusable field of every generated layout gets a lens by name and by type through all arities, and one byte-image comparison of a canary-guarded arena decides '
                     '"field equals the value", "every other field unchanged" and "memory around the struct unchanged" at once. The suite only knows struct{A A}.'),
         level_note='finite type universe; GC write barriers are not modelled (bytes only)'))

prop('C02',
     level='exploration',
     rule=('generated on the same shapes as C01: hostile derivation requests - unknown name, a type no field has, a name whose field has a near-miss type (named vs underlying, pointer vs value, other signedness/width, interface vs implementing type, []byte vs named bytes), the near-miss type by type, '
           'too few names (literal, and with the missing names hidden behind the capacity of the slice passed), one bad component inside an N-ary request, container type parameter *S (by name and by type), a focus that lies behind an embedded pointer, names/types that occur at several depths, '
           'and a Reflector handed S by value, **S, nil, *A, unsafe.Pointer, uintptr, a pointer to a twin struct type with the identical layout, a pointer to an unrelated struct; oracle: the model verdict computed from the spec alone: "panic" = the derivation must panic; '
           '"focus" = must not panic and pass the C01 image check at the model focus; "panic or correct" (focus behind a pointer) = either panics at derivation or passes the image check through the pointer with the pointee observed too; wrong dynamic arguments must panic and leave the arena byte-identical; '
           ' Second tier (E2): struct shapes that exist only at run time (reflect.StructOf: 1..6 fields per struct, value/pointer embedding to depth 4, unexported names, tags) unfolded by the real unfold through the verif-tagged hook hseq.VerifUnfold and focused with optics.NewLens/NewReflector[Blob, A] for A over a static universe of 47 types; oracle: reflect\'s own addressing (FieldByIndex) for listing offsets and field memory, every OTHER focus type of the universe must be refused for the focused field, byte image of a canary-guarded arena for Put. the same refusals are requested through ForShapeN (unknown name, near-miss type, too few names literally and behind the capacity) and BiMapS/B/I/F (wrong stored type of the same class, unknown name); field types include twins that print alike but differ (same package name, other import path: *ut.Pt vs *altut.Pt, []ut.MyStr); dynamic arguments of Gett/Putt include composites of the container type built by reflection ([]S, [1]S, *[1]S, map[string]S, chan S, []*S, func() *S); a function-local type declaration named like the package-level struct type of the field is requested by name and by type; one shape in twenty has a 72 KB array as its first member (fields beyond 64 KiB), another one in twenty 64-70 small fields in front and a pointer-embedded struct at the end (listing positions beyond 63); non-trivial = verdict panic / panic-or-correct, or a focus chosen among >= 2 candidates; distinct = different (shape, request)'),
     assumptions=E1_ASSUME,
     parts=[
         dict(name='shapes', engine='E1', kind='gen', gen='lens', pkg='gen', test='TestShapes',
              quick=dict(shapes=12, pkgs=4, draws=25), thorough=dict(shapes=30, pkgs=24, draws=60, timeout=7200)),
         dict(name='dyn', engine='E2', pkg='optdyn', test='TestDyn',
              quick=dict(cases=12000, shards=2), thorough=dict(cases=150000, shards=16, timeout=3000)),
     ],
     manifest=dict(
         engine='E1', design_ref='3/E1, 4/C02',
         technique='property-based testing over generated programs: hostile derivation requests with a verdict predicted from the shape spec (panic / focus / panic-or-correct), byte-image check of whatever is accepted',
         level_text='Requests that must be refused are generated next to valid ones on layouts with pointer embedding and ambiguous names; anything accepted is held to the C01 frame condition at the address the compiler computes, so a silently mis-typed or out-of-bounds focus shows as a changed canary or neighbour.',
         level_note='finite type universe and near-miss table; panics are recovered in-process, wild writes beyond the canaries may kill the process (then the journal names the case)'))

prop('C03',
     level='exploration',
     rule=('generated on the same shapes: hseq.New[T]() compared entry by entry with the flattened listing computed from the spec (declaration order, embedded struct by value or by pointer listed and followed by its fields depth-first): Name, Type, PureType, ID = position, key = tag or name, '
           'and for every entry not behind a pointer RootOffs+Offset = address difference computed by the compiler through plain selectors; ForName/ForNameMaybe/New(name) for every key, for absent keys, for the empty key and for field names hidden by a tag; ForType for every type present, for absent and near-miss types; '
           'New(names...) in reversed order with a repeat and with an unknown name; New1..New9 by N-tuples of types (cyclic, both orders) and FMap1..FMap9 with recording functions (the i-th function sees the i-th entry exactly once), FMap over the whole listing; '
           ' Second tier (E2): struct shapes that exist only at run time (reflect.StructOf: 1..6 fields per struct, value/pointer embedding to depth 4, unexported names, tags) unfolded by the real unfold through the verif-tagged hook hseq.VerifUnfold and focused with optics.NewLens/NewReflector[Blob, A] for A over a static universe of 47 types; oracle: reflect\'s own addressing (FieldByIndex) for listing offsets and field memory, every OTHER focus type of the universe must be refused for the focused field, byte image of a canary-guarded arena for Put. the first result of hseq.New is reordered and overwritten by its owner and hseq.New is asked again (results are independent values); field types include twins whose reflect.Type.String() is equal although the types differ (ForType must tell them apart); struct types are reused inside a shape (embedded here, nested there) and a sixth of the shapes contain a diamond (one struct type pointer- or value-embedded in two branches); fixed cases add instantiations of a generic container (ut.Box[int8] / ut.Box[string] unfolded alternately, ut.Wrap[int64] embedding ut.Box[int64]; another instantiation requested as focus must be refused); a separate part (race detector on) derives listings, lenses and reflectors of plain, namesake and generic containers from 2..8 goroutines at once and uses them; non-trivial = shape with >= 5 entries and at least one embedding; distinct = different shape'),
     assumptions=E1_ASSUME,
     parts=[
         dict(name='parallel', engine='E1', pkg='optpar', test='TestPar', race=True, replay_test='TestReplayPar', env=dict(GORACE='halt_on_error=1'),
              quick=dict(cases=150, shards=1), thorough=dict(cases=4000, shards=4, timeout=3000)),
         dict(name='shapes', engine='E1', kind='gen', gen='lens', pkg='gen', test='TestShapes',
              quick=dict(shapes=12, pkgs=4, draws=2), thorough=dict(shapes=30, pkgs=24, draws=2, timeout=3000)),
         dict(name='dyn', engine='E2', pkg='optdyn', test='TestDyn',
              quick=dict(cases=12000, shards=2), thorough=dict(cases=150000, shards=16, timeout=3000)),
     ],
     manifest=dict(
         engine='E1', design_ref='3/E1, 4/C03',
         technique='property-based testing over generated programs: the unfolding of generated struct types vs a listing model computed from the spec, offsets vs compiler selectors, every lookup API on every key/type',
         level_text='Generated layouts with value/pointer embedding, duplicate names and types across depths and tags, checked entry by entry against an independently computed listing and against the compiler\'s own field addresses.',
         level_note='finite type universe; recursive types excluded'))

prop('C04',
     level='exploration',
     rule=('generated: shapes rich in named nested struct fields (to depth 3, the inner structs themselves using value/pointer embedding, tags and unexported names) with requests: Join chains of 2..4 lenses derived by name, depth 3 in both associations, inner foci '
           'promoted from embedded structs; BiMap with mutually inverse pairs (x <-> x+k on every int class, byte reversal on string classes); BiMapS/B/I/F between a field type and a view type of the same class (named <-> underlying, other widths) by name and by type, view values drawn from the range on which the conversions are inverse; '
           'Getter and Setter with drawn conversions; ForShape2..9 by name over distinct leaf fields of mixed types; NewLensM over map[string]int and a named map type with keys present/absent; Iso and Morphism between each shape and the next one over lists of 1..6 isos with nil entries and repeated entries; '
           'oracle: byte images of the canary-guarded arenas of BOTH structures predicted with plain selector assignments: Join obeys the three laws at &p.a.b.c and nothing else changes (padding inside the intermediate structs is exempt); BiMap*: stored value = cmap(b), Get = fmap(field), laws on the converted value; '
           'Getter never writes; Setter writes f(b) and reads the zero value; ShapeN Get = the N selector reads, Put = exactly N selector writes in positional order; map lens: model map, same identity; Forward: target foci := source foci, Inverse after scrambling the source foci restores them, every other byte of both arenas unchanged; '
           'one Join lens value is also used by two goroutines at once on two different structures (300 Put/Get rounds each, images checked every round); two morphisms extending ONE base morphism built from a slice with spare capacity are both checked after the second was built; the isos of a Morphism are passed as a slice the program keeps, compares afterwards and uses for a second Morphism; every shape has a field of each conversion class and one BiMapS/B/I/F request per class; slice-typed views are also put through nil / empty / empty-with-capacity; non-trivial = Join depth >= 3 or through a promoted field, a view type different from the field type, ShapeN over >= 2 different types, Morphism with >= 2 distinct isos and >= 1 nil; distinct = different (shapes, request)'),
     assumptions=E1_ASSUME + ['ShapeN never names the same field twice; distinct isos of a Morphism have distinct, non-overlapping target foci; nil maps are not passed to a map lens',
                              'values written through converting lenses are compared semantically (a conversion may allocate), everything around them byte by byte'],
     parts=[
         dict(name='compose', engine='E1', kind='gen', gen='compose', pkg='gen', test='TestShapes',
              quick=dict(shapes=10, pkgs=4, draws=25), thorough=dict(shapes=24, pkgs=24, draws=60, timeout=7200)),
     ],
     manifest=dict(
         engine='E1', design_ref='3/E1, 4/C04',
         technique='property-based testing over generated programs: composed optics (Join/BiMap*/Getter/Setter/ShapeN/map lens/Iso/Morphism) on generated nested layouts, both structures held to byte-image predictions made with plain selector assignments',
         level_text='Compositions are generated over generated layouts and nesting depths; the frame condition is checked on the whole memory of both structures, so a composite that writes the wrong nested field, swaps two same-typed components or skips an iso behind a nil shows as a byte difference.',
         level_note='finite type universe; conversion pairs come from small families'))

prop('C05',
     level='exploration',
     rule=('generated: stage (Map pure/lift/try, FMap, Filter, Take with n in {0, <len, =len, >len}, TakeWhile, Partition, Fold with a non-commutative monoid and '
           'non-zero Empty, ForEach, Void) x input of 0..12 elements (duplicates allowed) x input capacity {0,1,2,3,8,len} x a script of 0..40 environment moves '
           '(try-send, blocking producer bursts, close, try-receive / drain on each output, batches without an intervening quiescence) executed at quiescent points of a '
           'synctest bubble, followed by a fair completion phase (all elements offered with the inputs still open, then inputs closed); oracle: list functions on the input; '
           'delivered is a prefix of the expected list at every receive, equal to it when the output closes, per-argument call counts and call order of the user function, '
           'number of elements removed from the input (Take/TakeWhile), early close of Take/TakeWhile without waiting for more input, no goroutine of the stage alive after completion; '
           'plus Seq/ToSeq: ToSeq(chain(Seq(xs...))) for generated chains of Map/Filter/Take/TakeWhile/FMap over 0..24 (10%: 1000..2200) elements equals the list functions, the caller overwriting its slice right after Seq returned; the input buffer may already hold elements when the stage is created (Prefill); a fifth of the scenarios run an independent second instance of the stage alongside (own channels and context, must complete as if alone); a separate part streams elements of type any (nil interface, typed nils, zero values, non-comparable payloads) through Take/Filter/Map/TakeWhile; all scripts of 5 (thorough: 7) moves over {send, close, recv 0, recv 1, burst 2} are enumerated for every stage, capacity {0,1} and two inputs; a separate part folds element objects of a pointer-typed carrier (Combine adds into its left operand, shared objects half of the time) twice and re-reads the objects afterwards; a few hundred (thorough: 15000) of the generated scenarios are also executed in a binary built with the race detector; a separate part lets two stages of the same kind (ForEach, Map, Filter, fork.ForEach) consume ONE input channel with gated functions: every handed element is processed exactly once by one of them and nothing else is; non-trivial = input length >= 2 and (capacity < length or a quiescent point with a blocked producer / full buffer); distinct = different canonical scenario'),
     assumptions=E3_ASSUME,
     parts=[
         dict(name='enum', engine='E3', pkg='pipes', test='TestC05Enum', kind='plain',
              quick=dict(shards=8), thorough=dict(shards=16, timeout=3000)),
         dict(name='any-elements', engine='E3', pkg='pipes', test='TestC05Any', replay_test='TestReplayAny',
              quick=dict(cases=4000, shards=1), thorough=dict(cases=100000, shards=4, timeout=3000)),
         dict(name='shared-input', engine='E3', pkg='pipes', test='TestC05Shared',
              quick=dict(cases=6000, shards=2), thorough=dict(cases=120000, shards=8, timeout=3000)),
         dict(name='fold-ref', engine='E3', pkg='pipes', test='TestC05FoldRef',
              quick=dict(cases=3000, shards=1), thorough=dict(cases=60000, shards=4, timeout=3000)),
         dict(name='seq', engine='E3', pkg='pipes', test='TestC05Seq',
              quick=dict(cases=10000, shards=1), thorough=dict(cases=200000, shards=8, timeout=3000)),
         dict(name='race-detector', engine='E3', pkg='pipes', test='TestC05', race=True, env=dict(GORACE='halt_on_error=1'),
              quick=dict(cases=400, shards=2), thorough=dict(cases=15000, shards=8, timeout=3000)),
         dict(name='rapid', engine='E3', pkg='pipes', test='TestC05',
              quick=dict(cases=20000, shards=4), thorough=dict(cases=900000, shards=16, timeout=3000)),
     ],
     manifest=dict(
         engine='E3', design_ref='3/E3, 4/C05',
         technique='property-based testing (rapid) of environment-move scripts at synctest quiescent points; list-function oracle, prefix invariant, call and consumption counters',
         level_text=('Every stage is driven by generated schedules of sends, closes and receives applied at quiescent points of a synctest bubble, with all capacities, '
                     'and compared with list functions at every step. The suite only ever uses a pre-filled closed channel drained by ToSeq; this explores back-pressure, '
                     'unbuffered hand-offs, partial consumption and early close.'),
         level_note='trusts testing/synctest quiescence detection and the list oracles; runtime-owned select tie-breaks are sampled'))

prop('C06',
     level='exploration',
     rule=('generated: all 13 stages (+StdErr wrapping, Lift/Try modes with failing elements, error values that wrap context.Canceled/DeadlineExceeded/io.EOF) x capacities x scripts in which '
           'the cancel is placed by class (random position, first move, while the stage is blocked on an output nobody reads, inside a batch next to a send/receive/close, after all inputs closed, or never) '
           'and closes at any position; 25% of the scenarios end with nobody receiving any more; plus a complete enumeration: cancel / close / two batch forms inserted at every position of a fixed 11-move script '
           'for every stage, mode and capacity {0,1,3}; oracle: no process death (journal), delivered prefix of the uncancelled result at every receive (Fold/ForEach/Void: nothing or the full result), '
           'uncancelled runs: every port closes under a fair consumer and no stage goroutine remains (goroutine census of the bubble; Throttling may keep one pacer); after cancel + close of all inputs with NO further receive: '
           'census empty after a virtual horizon, then every port drains to "closed"; bubble exit without deadlock; '
           '(leak verdicts come from the bubble itself: it cannot end while a goroutine of the stage is blocked; the census is taken for Throttling and to describe a leak); enumerated scenarios are repeated to sample select tie-breaks; stages are also created on an already cancelled context, and a sixth of the scenarios run an independent never-cancelled second instance alongside which must complete as if alone; a quarter of the Filter/TakeWhile/Partition scenarios use Lift/Try predicates that return errors (liveness, leak and nothing-invented clauses only); a quarter of the scenarios end by a deadline-style context (Err() == DeadlineExceeded); scripts of the untimed stages contain waits of 2 s / 90 s / 4000 s of virtual time; a few hundred (thorough: 15000) of the generated scenarios are also executed in a binary built with the race detector; non-trivial = cancel while a producer is blocked / buffer full, or cancel inside a batch; distinct = different canonical scenario'),
     assumptions=E3_ASSUME + ['goroutines are attributed to the stage by frames in github.com/fogfish/golem/pipe/v2 within the current bubble'],
     parts=[
         dict(name='cancel-enum', engine='E3', pkg='pipes', test='TestC06Cancel', kind='plain',
              quick=dict(shards=8), thorough=dict(shards=16, timeout=3000, env=dict(VERIF_C06_REPEAT=8))),
         dict(name='race-detector', engine='E3', pkg='pipes', test='TestC06', race=True, env=dict(GORACE='halt_on_error=1'),
              quick=dict(cases=400, shards=2), thorough=dict(cases=15000, shards=8, timeout=3000)),
         dict(name='rapid', engine='E3', pkg='pipes', test='TestC06',
              quick=dict(cases=15000, shards=8), thorough=dict(cases=900000, shards=16, timeout=3000)),
     ],
     manifest=dict(
         engine='E3', design_ref='3/E3, 4/C06',
         technique='property-based testing (rapid) of cancel/close/receive schedules in synctest bubbles; goroutine census, bubble deadlock detector, crash journal; exhaustive cancel-position enumeration on fixed scripts',
         level_text=('Generated environment schedules with the cancel and the close at every kind of position, absent consumers included; leak and non-closure are decided by the '
                     'bubble (all goroutines durably blocked) rather than by time-outs, so "never closes" is a definitive verdict for that schedule. Cancel positions of a fixed script are enumerated completely.'),
         level_note='schedules are sampled (except the enumerated cancel positions); a library panic kills the child process and is recovered from the scenario journal'))

prop('C07',
     level='fault_enumeration',
     rule=('enumerated: ALL 2^n subsets of failing positions for n <= 4 (quick) / 6 (thorough) x {Map lift, Map try, FMap liftf, FMap tryf, Emit lift, Emit try, Unfold lift} x capacity {0,1,2} x 5 consumer scripts '
           '(values first, errors first, alternating, stepwise, fair only); generated: inputs up to 40 elements with duplicates, random failing value sets, random scripts, error values that wrap '
           'context.Canceled / DeadlineExceeded / io.EOF, StdErr wrapping; oracle: exact value and error sequences per mode, both channels closed, call count = k+1 and elements removed <= k+1 under fail-fast, '
           'fail-fast closes without waiting for further input, no stuck state under a fair consumer that reads the error channel; '
           'error values also include a slice-typed (non-comparable) error type; every enumerated Map/FMap mask is also run with the StdErr reader of the library itself as the error reader; a sixth of the Map/FMap scenarios run an independent second instance alongside (own failing set); a separate part hands ONE morphism value (pipe.Lift / Try / LiftF / TryF and the fork constructors) to two or three stages in a row, the first of which usually fails: each stage behaves as documented for its own input (values, errors, call counts); a few hundred (thorough: 15000) of the generated scenarios are also executed in a binary built with the race detector; non-trivial = at least one failing and one succeeding element with a success after the first failure; distinct = different canonical scenario'),
     assumptions=E3_ASSUME + ['the error channel is always eventually read (proviso of the statement)', 'a failing arrow emits nothing before failing'],
     parts=[
         dict(name='enum', engine='E3', pkg='pipes', test='TestC07Enum', kind='plain',
              quick=dict(shards=8), thorough=dict(shards=16, timeout=3000)),
         dict(name='reuse', engine='E3', pkg='pipes', test='TestC07Reuse',
              quick=dict(cases=4000, shards=1), thorough=dict(cases=80000, shards=4, timeout=3000)),
         dict(name='race-detector', engine='E3', pkg='pipes', test='TestC07', race=True, env=dict(GORACE='halt_on_error=1'),
              quick=dict(cases=400, shards=2), thorough=dict(cases=15000, shards=8, timeout=3000)),
         dict(name='rapid', engine='E3', pkg='pipes', test='TestC07',
              quick=dict(cases=10000, shards=8), thorough=dict(cases=800000, shards=16, timeout=3000)),
     ],
     manifest=dict(
         engine='E3', design_ref='3/E3, 4/C07',
         technique='fault enumeration (all failure masks up to a bound) + property-based testing (rapid) of longer inputs and consumer interleavings in synctest bubbles',
         level_text=('Every subset of failing positions up to a bound is executed for every stage/mode/capacity/consumer order; beyond the bound masks and schedules are generated. '
                     'The oracle is the exact pair of value and error sequences plus closure, so loss, duplication, reordering and hangs are all visible.'),
         level_note='exhaustive only for n <= bound and the five canonical consumer scripts; schedules beyond are sampled'))

prop('C08',
     level='exploration',
     rule=('generated: capacity 0..4 x scripts of up to 40 moves over pipe.New (send, bursts of 1..8 and occasionally 50..200 sends by one chained producer so that values are 1,2,3,... in send order, '
           'try-receive, drain-to-empty) ending by class: cancel by the harness, cancel with a backlog just sent, sends racing the cancel inside one batch, close of the send side with a backlog; '
           'oracle: FIFO model of the sends that completed: at every quiescent point every started send has returned (a send never waits for the receiver), received values are exactly 1,2,3,..., '
           'the receive side never closes before cancel/close, and after cancel or close-by-sender a full drain yields every completed send and then "closed"; process survives (journal), bubble ends (no leak); '
           'besides the sequential sender, batches start 1..8 INDEPENDENT one-shot senders (several goroutines parked on a full send buffer while the cancel arrives; their values may arrive in any order, each at most once, every completed one delivered); in 25% of the scenarios a pipe of another element type (string) runs through a few values first in the same process; a fifth of the scenarios keep a second pipe of the same element type alive for the whole scenario (own context, five values, ended the other way), 5% create the pipe on a cancelled context; a separate part sends values of type any (nil interface, zero values, non-comparable payloads); all scripts of 5 (thorough: 7) moves over {send, recv, drain, burst 3, recv+send batch} are enumerated for capacities {0,1,2} and both ways of ending the stream; further end classes: close by the sender with a backlog and only then a cancel; up to four sends completing into the send buffer, close and cancel issued by one goroutine without yielding (repeated 6 times); a sixth of the scenarios (and every pre-cancelled one) also start sends after the cancel: each completes and is delivered, or ends by the closed-channel panic, none stays blocked; a quarter end by a deadline-style context; scripts contain long virtual waits; a separate part runs send/receive scripts over pipe.New[struct{}] (zero-size elements: only counts are observable); a constructed scenario (a backlog in the queue, then sends racing the cancel) is executed 20000 times on every run; non-trivial = backlog >= 2 at some quiescent point and (the stream ends with a backlog / racing sends, or the queue drained to empty and refilled at least twice); distinct = different canonical scenario'),
     assumptions=E3_ASSUME + ['no send is started after a completed cancel (the library closes the send side on cancel by design); a send racing the cancel may complete, give up or hit the closed channel - only completed sends enter the model'],
     parts=[
         dict(name='any-elements', engine='E3', pkg='pipes', test='TestC08Any', replay_test='TestReplayAny',
              quick=dict(cases=4000, shards=1), thorough=dict(cases=100000, shards=4, timeout=3000)),
         dict(name='zero-size-elements', engine='E3', pkg='pipes', test='TestC08Zero',
              quick=dict(cases=3000, shards=1), thorough=dict(cases=60000, shards=4, timeout=3000)),
         dict(name='enum', engine='E3', pkg='pipes', test='TestC08Enum', kind='plain',
              quick=dict(shards=4), thorough=dict(shards=16, timeout=3000)),
         dict(name='rapid', engine='E3', pkg='pipes', test='TestC08',
              quick=dict(cases=12000, shards=4), thorough=dict(cases=600000, shards=16, timeout=3000)),
     ],
     manifest=dict(
         engine='E3', design_ref='3/E3, 4/C08',
         technique='model-based property testing (rapid) of send/receive/cancel/close histories against a FIFO of completed sends, in synctest bubbles',
         level_text=('Histories of sends, receives, cancel and close-by-sender with every capacity against a FIFO model, with the "never blocks the sender" clause decided at quiescent points '
                     'and the end-of-stream clauses decided by a full drain; backlog sizes up to hundreds exercise the node pool.'),
         level_note='schedules sampled; one chained sender (total send order) plus independent one-shot senders; racing windows are sampled by repetition (committed scenarios with 20000 attempts each)'))

prop('C09',
     level='exploration',
     rule=('generated: fork.Map (pure/try/lift), FMap (tryf/liftf), Filter, Partition, ForEach, Void x 1..6 workers x inputs of 0..16 elements (duplicates) x input capacity 0..3 x scripts of sends, closes, receives and RELEASE moves: '
           'every user-function call blocks on its own gate inside the bubble and a release move opens the gate of the j-th pending call, so the script fixes which in-flight call completes first (classes: random, no cancel, '
           'one call held until everything else is done and the input closed, cancel with calls in flight); second tier: the same scenario families free-running under -race with GOMAXPROCS in {1,2,4,16}; '
           'oracle: delivered multisets are sub-multisets of what the sequential stage delivers at every receive and equal at close (Try errors likewise), per-argument call count = multiplicity, in-flight calls <= workers at every quiescent point, '
           'no output observed closed while a call is in flight, closure/cancel/leak clauses as C06 (fair completion, census, bubble exit), no race report; '
           'calls in flight stay gated across a cancel (an output observed closed while a call is in flight is a violation, cancelled or not); a constructed class makes every in-flight call return in the same batch with the output buffer partly filled and nobody receiving (repeated 6 times to sample the overlap); a sixth of the scenarios run an independent second instance alongside, stages are also created on an already cancelled context; a separate part streams elements of type any through fork.Map/Filter/Partition; the simultaneous-release class wakes all pending calls with one channel close (barrier move) with exactly one free output slot in half of its scenarios, 30 attempts; a separate differential part runs the thin delegations fork.Emit / Unfold / TakeWhile with fork.Pure / Lift / Try morphisms against the pipe stage with the pipe morphism of the same mode (values, errors preceding the n-th value, closure); a quarter of the fork.Filter / fork.Partition scenarios use Lift/Try predicates that return errors (closure, leak, call-count and nothing-invented clauses only); a quarter of the scenarios end by a deadline-style context; scripts contain long virtual waits; non-trivial = workers >= 2, input >= workers+1, and some release opened a gate other than the oldest; distinct = different canonical scenario'),
     assumptions=E3_ASSUME + ['on cancel the harness opens all gates (a stage cannot terminate a user function that blocks forever)',
                              'Lift-mode fork stages are checked for closure, leaks and sub-multisets only (each worker stops at its own first failure)',
                              'in the free-running tier a hang is a 20 s timeout and reported as inconclusive; termination is decided by the bubble tier'],
     parts=[
         dict(name='any-elements', engine='E3', pkg='pipes', test='TestC09Any', replay_test='TestReplayAny',
              quick=dict(cases=4000, shards=1), thorough=dict(cases=100000, shards=4, timeout=3000)),
         dict(name='delegations', engine='E4', pkg='pipes', test='TestC09Deleg',
              quick=dict(cases=3000, shards=1), thorough=dict(cases=60000, shards=4, timeout=3000)),
         dict(name='gated', engine='E4', pkg='pipes', test='TestC09',
              quick=dict(cases=5000, shards=6), thorough=dict(cases=240000, shards=16, timeout=3000)),
         dict(name='race', engine='E4', pkg='pipes', test='TestC09Race', race=True, replay_test='TestReplayFree', env=dict(GORACE='halt_on_error=1'),
              quick=dict(cases=500, shards=4), thorough=dict(cases=20000, shards=16, timeout=3000)),
     ],
     manifest=dict(
         engine='E4', design_ref='3/E4, 4/C09',
         technique='property-based testing (rapid) with gated user calls in synctest bubbles (the script owns the completion order of in-flight calls) + free-running runs under the race detector; multiset differential against the sequential stage',
         level_text=('The harness owns the order in which in-flight user calls complete, which worker starves and how elements spread over workers, so "every element exactly once" and "closed only after every worker finished" '
                     'are checked under adversarial completion orders instead of whatever the scheduler happens to do; the -race tier adds real parallelism.'),
         level_note='completion orders sampled; data races are reported only for schedules the -race tier actually runs'))

prop('C10',
     level='exploration',
     rule=('generated: 1..6 workers x input length by class (empty, <= workers, up to 15) x 7 commutative monoids (sum/0, product/1 over distinct primes, max/MinInt, min/MaxInt, and/all-ones, bit-union/0, sum mod p) '
           'with element encodings that keep partial results distinguishable x capacity 0..3 x scripts with release moves gating every Combine call (so the distribution of elements over workers and the merge order are scripted) x optional cancel; '
           'plus the free-running -race tier; oracle: exactly one value, equal to pipe.Fold run on the same input with the same monoid and to a plain loop from Empty(), then closed; under cancel nothing or that value; '
           'one in six scenarios uses 60..200 elements in a buffer of 64..len (pre-filled before the stage is created, workers ungated half of the time); a separate part folds with monoids whose carrier is a reference type and whose Combine merges into its left operand (histogram map, counter behind a pointer), compared with pipe.Fold; a sixth of the short scenarios run an independent second fold alongside (same input, own context); stages are also created on an already cancelled context; the free-running tier also lets the cancel race the end of the stream (go cancel(); send the last element; close - back to back after the workers parked); the reference-carrier part keeps the element objects of the caller (shared objects half of the time) and compares them after the fold; a quarter of the scenarios end by a deadline-style context (Err() == DeadlineExceeded); non-trivial = identity different from the zero value, or input >= workers >= 2; distinct = different canonical scenario'),
     assumptions=E3_ASSUME + ['integer overflow wraps (still commutative and associative); product inputs are distinct primes with at most 15 elements'],
     parts=[
         dict(name='ref-carrier', engine='E4', pkg='pipes', test='TestC10Ref',
              quick=dict(cases=4000, shards=1), thorough=dict(cases=100000, shards=8, timeout=3000)),
         dict(name='gated', engine='E4', pkg='pipes', test='TestC10',
              quick=dict(cases=8000, shards=4), thorough=dict(cases=250000, shards=16, timeout=3000)),
         dict(name='race', engine='E4', pkg='pipes', test='TestC10Race', race=True, replay_test='TestReplayFree', env=dict(GORACE='halt_on_error=1'),
              quick=dict(cases=640, shards=2), thorough=dict(cases=20000, shards=16, timeout=3000)),
     ],
     manifest=dict(
         engine='E4', design_ref='3/E4, 4/C10',
         technique='property-based testing (rapid): differential against pipe.Fold and a plain loop over commutative monoids with non-zero identities, gated Combine calls in synctest bubbles, -race tier',
         level_text='Monoids whose identity is not the zero value and whose partial results are distinguishable make a wrong start value, a lost partial or a doubly merged partial change the result; gates script the distribution of elements over workers.',
         level_note='monoid family is finite (7); distributions sampled'))

prop('C11',
     level='exploration',
     rule=('generated: Emit (pure / try / lift with failing indices) and Unfold (pure / lift) x capacity 0..4 x function family x frequency 1..3 units of {1ns, 1ms, 1s} x consumer either always ready or with a pattern of '
           '(idle gap, reads) x optional cancel at a drawn virtual time; executed with goroutine actors on the virtual clock of a synctest bubble; oracle: received values are a prefix of the exact successive sequence, errors a prefix of the failing indices, '
           'Emit: consecutive calls of f at least one frequency apart, call i not before i ticks, value j not received before j ticks, f called with 0,1,2,...; an always-ready consumer without faults receives values exactly one frequency apart; '
           'the stage keeps producing until cancelled (bounded virtual wait); after cancel both channels close and the bubble ends; '
           'in a third of the Emit scenarios the step function itself takes 0..3 quarters of a tick of virtual time; in half of the cancelled scenarios the consumer gives up at the cancel; a sixth of the scenarios run an independent second Emit/Unfold on the same virtual clock (always-ready consumer: exact sequence, values exactly one period apart); one scenario in sixteen creates the stage on an already cancelled context; a quarter of the Emit/Try scenarios fail on every index from some point on and are cancelled inside that run; after a cancel the errors keep being read for the whole horizon and the channels must be closed at its end; a quarter of the scenarios end by a real deadline context instead of a cancel; a few hundred (thorough: 15000) of the generated scenarios are also executed in a binary built with the race detector; non-trivial = >= 3 values received and (capacity < received or an idle gap of >= 2 ticks); distinct = different canonical scenario'),
     assumptions=E3_ASSUME + ['pacing is checked on the virtual clock, i.e. the logic of sleeping, not scheduler latency'],
     parts=[
         dict(name='race-detector', engine='E3', pkg='pipes', test='TestC11', race=True, env=dict(GORACE='halt_on_error=1'),
              quick=dict(cases=400, shards=2), thorough=dict(cases=15000, shards=8, timeout=3000)),
         dict(name='rapid', engine='E3', pkg='pipes', test='TestC11',
              quick=dict(cases=10000, shards=4), thorough=dict(cases=800000, shards=16, timeout=3000)),
     ],
     manifest=dict(
         engine='E3', design_ref='3/E3, 4/C11',
         technique='property-based testing (rapid) with consumer actors on a synctest virtual clock; exact-sequence and exact-timestamp oracles',
         level_text='Consumer schedules, capacities, frequencies and cancel times are generated; because the clock is virtual, pacing assertions are exact arithmetic on timestamps instead of flaky wall-clock bounds.',
         level_note='virtual time only; frequencies from three magnitudes'))

prop('C13',
     level='exploration',
     rule=('generated: ops 1..5 x interval 1..4 units of {1ms, 1s, 7ns} x input capacity 0..3 x 0..30 elements x scenario class (saturated: input always available and consumer always ready; consumer stalls for 2..10 intervals then drains; '
           'input pauses for 2..10 intervals then bursts; random arrival and consumer patterns) x optional cancel at a drawn time; actors on a synctest virtual clock; oracle: delivered == input in order, closed at the end; for every delivery time t before the cancel the '
           'half-open window [t, t+interval) holds at most 2*ops+1+c deliveries; saturated class: element i delivered within [floor(i/ops)*interval, +interval]; completion within a generous virtual budget; '
           'a sixth of the scenarios run an independent second Throttling of the same rate on the same virtual clock (saturated environment: exact per-element delivery window); one scenario in twenty creates the stage on an already cancelled context; a quarter of the scenarios end by a real context.WithDeadline on the virtual clock instead of a cancel (the context reports its deadline); a few hundred (thorough: 15000) of the generated scenarios are also executed in a binary built with the race detector; non-trivial = at least 2*ops+1 elements and (an idle period of >= 2 intervals followed by a burst, or saturated with ops >= 2); distinct = different canonical scenario'),
     assumptions=E3_ASSUME + ['rate bound as stated by the property (2*ops+1+c per interval window), timestamps taken at the consumer'],
     parts=[
         dict(name='race-detector', engine='E3', pkg='pipes', test='TestC13', race=True, env=dict(GORACE='halt_on_error=1'),
              quick=dict(cases=400, shards=2), thorough=dict(cases=15000, shards=8, timeout=3000)),
         dict(name='rapid', engine='E3', pkg='pipes', test='TestC13',
              quick=dict(cases=10000, shards=4), thorough=dict(cases=600000, shards=16, timeout=3000)),
     ],
     manifest=dict(
         engine='E3', design_ref='3/E3, 4/C13',
         technique='property-based testing (rapid) with producer/consumer actors on a synctest virtual clock; sliding-window rate oracle and exact saturated-timing bounds',
         level_text='Arrival and consumption patterns with idle periods and bursts are generated and the rate bound is evaluated on exact virtual timestamps for every window; the suite checks one wall-clock duration.',
         level_note='virtual time only'))

prop('C12',
     level='exploration',
     rule=('generated: k in {0,1,2,3,4,5,9,12} inputs of 0..6 tagged elements (input*1000+seq), capacities 0..3 each, scripts of up to 40+4k moves interleaving sends/bursts/closes on all inputs and receives; '
           'oracle at every receive: per-input subsequence of the delivered elements is a prefix of that input, no foreign element; if the output is observed closed: every input closed and fully delivered; completion: everything delivered then closed; '
           'the slice of channels handed to Join is overwritten right after the call; one scenario in eight hands the same channel to Join twice (multiset oracle, no invented values); a fifth of the scenarios run an independent second Join alongside; a separate part joins streams of type any; all scripts of 6 (thorough: 8) moves over {send 0, send 1, close 0, close 1, recv} on two inputs are enumerated for three capacity pairs; one scenario in fifteen has 17..70 inputs (more than processors); with every element offered, the inputs open and a fair consumer everything must have come out already; scripts contain waits of 2 s / 90 s / 4000 s of virtual time; a few hundred (thorough: 15000) of the generated scenarios are also executed in a binary built with the race detector; non-trivial = k >= 2, two non-empty inputs, sends alternate between inputs; distinct = different canonical scenario'),
     assumptions=E3_ASSUME,
     parts=[
         dict(name='any-elements', engine='E3', pkg='pipes', test='TestC12Any', replay_test='TestReplayAny',
              quick=dict(cases=4000, shards=1), thorough=dict(cases=100000, shards=4, timeout=3000)),
         dict(name='enum', engine='E3', pkg='pipes', test='TestC12Enum', kind='plain',
              quick=dict(shards=4), thorough=dict(shards=16, timeout=3000)),
         dict(name='race-detector', engine='E3', pkg='pipes', test='TestC12', race=True, env=dict(GORACE='halt_on_error=1'),
              quick=dict(cases=400, shards=2), thorough=dict(cases=15000, shards=8, timeout=3000)),
         dict(name='rapid', engine='E3', pkg='pipes', test='TestC12',
              quick=dict(cases=12000, shards=4), thorough=dict(cases=600000, shards=16, timeout=3000)),
     ],
     manifest=dict(
         engine='E3', design_ref='3/E3, 4/C12',
         technique='property-based testing (rapid) of multi-input send/close/receive interleavings in synctest bubbles; per-input order invariant',
         level_text='Interleavings of sends and closes over 0..12 inputs against a per-input prefix invariant and a closed-implies-all-drained check at every step.',
         level_note='schedules sampled; elements are tagged so that their origin is known'))

prop('C14',
     level='exploration',
     rule=('generated: expression trees of depth 1..6 over From, FromSlice (0..6 elements), nil, TakeWhile, DropWhile, Filter, Map, Plus, Join; '
           'predicates/mappings from parameterised families (residue classes, thresholds, const true/false, affine maps); Join bodies are generated '
           'sub-trees evaluated with a shift derived from the outer element and return nil on a drawn residue class; oracle: a list interpreter '
           '(evalS) compared with the slice collected by the documented loop, and with seq.ForEach under a callback failing at a drawn position '
           '(visited prefix and returned error); source slices compared with private copies afterwards; '
           'a third of the slice leaves are windows buf[:n] of larger buffers whose hidden capacity holds sentinels that must survive; in a separate generated part two expressions over shared leaf buffers are drained alternately, step by step; the evaluations of predicates, mappings and join bodies are counted: none may happen after the ForEach callback returned its error; a separate part (race detector on) executes 2..8 independent scenarios in as many goroutines at once, each repeated 20-30 times: instances of their own share nothing; one slice leaf in four hundred has a length at a power of two (64 .. 4096, -1/0/+1; at most one such leaf per tree); non-trivial = depth >= 3, expected length >= 1, >= 2 different combinators; distinct = different canonical tree+fail position'),
     assumptions=['element type int only; user functions are pure and total', 'an empty result may be a nil Seq or an iterator-less loop: compared by the collected slice'],
     parts=[
         dict(name='enum', engine='E5', pkg='iters', test='TestC14Enum', kind='plain', quick=dict(shards=4), thorough=dict(shards=8)),
         dict(name='parallel', engine='E5', pkg='iters', test='TestC14Par', race=True, replay_test='TestReplayPar', env=dict(GORACE='halt_on_error=1'),
              quick=dict(cases=150, shards=2), thorough=dict(cases=4000, shards=8, timeout=3000)),
         dict(name='rapid', engine='E5', pkg='iters', test='TestC14',
              quick=dict(cases=300000, shards=6), thorough=dict(cases=4500000, shards=16, timeout=2400)),
         dict(name='fuzz', engine='coverage-guided sweep', kind='fuzz', pkg='iters', test='FuzzC14',
              thorough=dict(execs=3000000, timeout=2400)),
     ],
     manifest=dict(
         engine='E5', design_ref='4/C14',
         technique='property-based testing (rapid): generated combinator expression trees vs a list interpreter; exhaustive enumeration of all trees of depth <= 3 over a small alphabet',
         level_text=('Random expression trees to depth 6 with generated flat-map bodies, drained by the documented loop and by ForEach with a failing '
                     'callback at every/drawn position, compared with obviously-correct list code; all trees to depth 3 over a small alphabet are enumerated. '
                     'The iterators are small stateful objects whose bugs show only under nesting (Plus inside Join inside TakeWhile...), which is exactly what a tree generator reaches.'),
         level_note='trusts the list interpreter (harness/iters/ast.go evalS); iterators are used once, as the documented loop does'))

prop('C15',
     level='exploration',
     rule=('generated: expression trees of depth 2..6 mixing pair.From, TakeWhile, DropWhile, Filter, Map, Plus, Join, FromSeq with the plain-seq '
           'combinators through ToSeq/FromSeq; leaves carry keys in 1000..1020 and values in 0..20 so a swapped or stale key is visible; predicates, '
           'mappings and join bodies depend asymmetrically on (key, value) (e.g. k-2v mod m); oracle: list-of-pairs interpreter (evalP) vs the '
           '(Key(),Value()) pairs collected by the documented loop and by pair.ForEach with a failing callback; '
           'in a separate generated part two expressions over shared leaves are drained alternately; the evaluations of predicates, mappings and join functions are counted: none may happen after the ForEach callback returned its error; a separate part (race detector on) executes 2..8 independent scenarios in as many goroutines at once, each repeated 20-30 times: instances of their own share nothing; one slice leaf in four hundred has a length at a power of two (64 .. 4096, -1/0/+1; at most one such leaf per tree); non-trivial = depth >= 3, expected length >= 1, >= 2 different combinators; distinct = different canonical tree+fail position'),
     assumptions=['key and value type int only; user functions are pure and total'],
     parts=[
         dict(name='enum', engine='E5', pkg='iters', test='TestC15Enum', kind='plain', quick=dict(shards=4), thorough=dict(shards=8)),
         dict(name='parallel', engine='E5', pkg='iters', test='TestC15Par', race=True, replay_test='TestReplayPar', env=dict(GORACE='halt_on_error=1'),
              quick=dict(cases=150, shards=2), thorough=dict(cases=4000, shards=8, timeout=3000)),
         dict(name='rapid', engine='E5', pkg='iters', test='TestC15',
              quick=dict(cases=300000, shards=6), thorough=dict(cases=4500000, shards=16, timeout=2400)),
         dict(name='fuzz', engine='coverage-guided sweep', kind='fuzz', pkg='iters', test='FuzzC15',
              thorough=dict(execs=3000000, timeout=2400)),
     ],
     manifest=dict(
         engine='E5', design_ref='4/C15',
         technique='property-based testing (rapid): generated mixed pair/seq expression trees vs a list-of-pairs interpreter; exhaustive enumeration of small trees',
         level_text=('As C14 for key-value iterators, with asymmetric functions of (key, value) so that swapped arguments, a stale Key() after Plus/Join '
                     'switches, or a Map that touches keys change the collected pairs.'),
         level_note='trusts the list interpreter (harness/iters/ast.go evalP/evalS)'))

prop('C16',
     level='exploration',
     rule=('generated: well-typed linear programs From + 0..14 steps of Join/LiftF/WrapF/Unit/Yield over a universe of 16 element types '
           '({int, Account, *Account, Void} x slice levels 0..3) and 2 source types, every L1/L2 carrying its step number as payload; the real generic '
           'combinators are reached through a generated table of ~1000 instantiations (harness/ducts/table_gen.go); oracle: an independent model with an '
           'explicit stack of open contexts gives the expected tree and its DFS callback trace (kind, depth, Type/TypeA/TypeB as literal strings, payload, Root, '
           'Deferred, child count); checked with a recording visitor (trace equality, bracket discipline, depth = parent+1) and with a visitor failing at EVERY callback '
           'index (exactly k+1 callbacks, Apply returns that very error); '
           'a separate generated part builds two programs alternately, statement by statement, and applies both; the lifted value of a step comes from L1/L2 at its own type parameters, from a conversion of a value lifted at other type parameters, or is the zero value; every sequence node handed to a callback is re-visited through Ast.Apply at depth 0 and depth+3 and must report that stretch of the full visit shifted; a separate part (race detector on) executes 2..8 independent scenarios in as many goroutines at once, each repeated 20-30 times: instances of their own share nothing; non-trivial = one nested context closed by Unit and another still open, or nesting >= 2; distinct = different canonical program'),
     assumptions=['each intermediate morphism is used once (the statement\'s proviso): the AST is shared by pointer between a morphism and its derivatives',
                  'payloads are ints; type universe is finite (16 types)'],
     parts=[
         dict(name='enum', engine='E5', pkg='ducts', test='TestC16Enum', kind='plain', quick=dict(shards=4), thorough=dict(shards=16, timeout=2400)),
         dict(name='parallel', engine='E5', pkg='ducts', test='TestC16Par', race=True, replay_test='TestReplayPar', env=dict(GORACE='halt_on_error=1'),
              quick=dict(cases=150, shards=2), thorough=dict(cases=4000, shards=8, timeout=3000)),
         dict(name='rapid', engine='E5', pkg='ducts', test='TestC16',
              quick=dict(cases=20000, shards=4), thorough=dict(cases=600000, shards=16, timeout=2400)),
         dict(name='fuzz', engine='coverage-guided sweep', kind='fuzz', pkg='ducts', test='FuzzC16',
              thorough=dict(execs=3000000, timeout=2400)),
     ],
     manifest=dict(
         engine='E5', design_ref='4/C16',
         technique='property-based testing (rapid): generated well-typed combinator programs vs a stack-of-open-contexts model, failing visitor at every callback position; exhaustive short programs',
         level_text=('Programs are drawn at run time over a generated dispatch table of the real generic instantiations; an independently written model predicts '
                     'the whole callback trace, and a failing visitor is placed at every callback position of every program. All programs up to a length bound over a '
                     '6-type sub-universe are enumerated. This reaches nesting/closing patterns (Unit after Unit, LiftF inside a closed context\'s parent, Yield inside an open context) '
                     'that the single hand-written test program never visits.'),
         level_note='trusts the model in harness/ducts/ducts_test.go (written from the statement) and the committed generated table'))

prop('C17',
     level='exploration',
     rule=('generated: law kind (eq/ord on int and string, ContraMap over int and string projections, From wrappers over arbitrary '
           'tables, monoid/semigroup constructors) x triples of ints (boundary-biased) / strings (pieces incl. empty, proper prefixes, '
           'multi-byte runes, invalid UTF-8) x projection and operation parameters; oracles: ==, cmp.Compare, strings.Compare, bytes.Compare, '
           'the base instance applied to projections with an argument-recording asymmetric base, the wrapped function itself; '
           'monoid.From over an already lifted monoid (two levels) must take the new empty element; ContraMap over arbitrary base functions (difference-style comparators answering values outside LT/EQ/GT, non-reflexive relations) must return exactly the answer of the base; a fifth of the string scenarios make the three strings views of ONE allocation (s, s[:k], s[i:]); non-trivial = the first two arguments differ; distinct = different canonical scenario'),
     assumptions=['the harness builds against /repo/pure of the working tree (replace directive), not the cached pure v0.10.1'],
     parts=[
         dict(name='grid', engine='E7', pkg='c17', test='TestC17Grid', kind='plain', quick=dict(shards=1), thorough=dict(shards=1)),
         dict(name='rapid', engine='E7', pkg='c17', test='TestC17',
              quick=dict(cases=150000, shards=1), thorough=dict(cases=6000000, shards=16, timeout=1800)),
     ],
     manifest=dict(
         engine='E7', design_ref='4/C17',
         technique='property-based testing (rapid): algebraic laws vs built-in operators, order-revealing (asymmetric, argument-recording) witnesses',
         level_text=('Law instances over generated and boundary values, compared with the built-in operators and with the base instance applied '
                     'to projections; an asymmetric recording base makes swapped or one-sided projection observable. The code is a handful of '
                     'total one-line functions, so generated search plus a complete boundary grid is proportionate.'),
         level_note='trusts Go built-in ==, <, cmp/strings/bytes.Compare as the reference ordering; only the exported Int/String instances exist and are checked'))

prop('C18',
     level='exploration',
     rule=('generated: Put/Get/Remove histories of 1..60 (10%: ..200) operations over a key universe of 3..12 keys, three key orders '
           '(ord.Int, reversed order via ord.From, ord.String over keys with shared prefixes / multi-byte / invalid UTF-8), each history executed '
           'under 3 drawn height seeds (virtual clock offset inside a synctest bubble, which is what seeds the node heights); oracle: Go map for every '
           'return value and for Get of the whole universe after EVERY step, plus the parsed String() form after every step (live keys strictly ascending '
           'under the scenario order and equal to the model key set, forward pointers only to strictly larger live keys); '
           'string keys include percent characters (100%, %v, a%sb, %d%%); a third of the histories drive a second list alongside (own model) with interleaved operations; a separate part (race detector on) executes 2..8 independent scenarios in as many goroutines at once, each repeated 20-30 times: instances of their own share nothing; in a third of the histories the printed form is read only after a drawn subset of the steps (and the last one), so that a form remembered between steps is exposed; one history in forty works on 50..300 integer keys with up to 600 operations (upper levels of the list); non-trivial = the history re-inserts or reads a removed key, overwrites a key, or inserts in descending order; distinct = different canonical scenario'),
     assumptions=['internal/maplike is exercised as a staged copy of the working-tree sources under the import path github.com/fogfish/golem/maplike',
                  'node heights are made deterministic through the bubble clock only (no source change): skiplist.New seeds from time.Now()',
                  'string keys are non-empty and contain no blanks so that the printed form can be parsed unambiguously'],
     parts=[
         dict(name='enum', engine='E6', pkg='c18', test='TestC18Enum', kind='plain',
              quick=dict(shards=4), thorough=dict(shards=16, timeout=3000)),
         dict(name='parallel', engine='E6', pkg='c18', test='TestC18Par', race=True, replay_test='TestReplayPar', env=dict(GORACE='halt_on_error=1'),
              quick=dict(cases=150, shards=2), thorough=dict(cases=4000, shards=8, timeout=3000)),
         dict(name='rapid', engine='E6', pkg='c18', test='TestC18',
              quick=dict(cases=15000, shards=4), thorough=dict(cases=240000, shards=16, timeout=3000)),
     ],
     manifest=dict(
         engine='E6', design_ref='4/C18',
         technique='model-based property testing (rapid histories + exhaustive short histories) against a Go map, structural invariants parsed from String(), deterministic node heights via synctest clock',
         level_text=('Operation histories against a reference map with the full key universe re-read and the printed structure re-validated after every '
                     'step, under several node-height seeds; all histories up to a bound over 3 keys are enumerated. Exploration with a strong oracle is '
                     'appropriate for a sequential data structure whose bugs (lost fingers, stale pointers after Remove) need specific height patterns.'),
         level_note='trusts the Go map model and the parser of the printed form; heights are sampled (3 seeds per history), not enumerated'))

prop('C19',
     level='exploration',
     rule=('generated: scripts of 1..24 operations (New with 0..5 elements and 0..3 hidden spare capacity behind the variadic slice, Cons, Tail, '
           'Head, Length, IsEmpty, Fold with (a*31+b) mod p from a non-neutral Empty) over a growing register file, register indices taken modulo the '
           'registers existing; executed in lock-step on list.Trait[int], slice.Trait[int] and a [][]int model; after EVERY step every register is '
           're-read through Head/Tail/IsEmpty on both implementations and compared with the model (persistence); '
           '5% of the New operations use a window of a buffer with 1100..2500 spare elements, 5% more than 1024 elements; a separate part (race detector on) executes 2..8 independent scenarios in as many goroutines at once, each repeated 20-30 times: instances of their own share nothing; one scenario in sixty inserts a sequence whose length sits at a power of two (64..32768, -1/0/+1) and folds it four times; non-trivial = some Cons on a register of length >= 1 or Tail on a register of length >= 2 (so a register is re-read after being extended/cut); '
           'distinct = different canonical script'),
     assumptions=['internal/seq is exercised as a staged copy of the working-tree sources under the import path github.com/fogfish/golem/seq',
                  'Head/Tail of an empty sequence are outside the statement and are not generated'],
     parts=[
         dict(name='enum', engine='E6', pkg='c19', test='TestC19Enum', kind='plain', quick=dict(shards=1), thorough=dict(shards=1, timeout=5400)),
         dict(name='parallel', engine='E6', pkg='c19', test='TestC19Par', race=True, replay_test='TestReplayPar', env=dict(GORACE='halt_on_error=1'),
              quick=dict(cases=150, shards=2), thorough=dict(cases=4000, shards=8, timeout=5400)),
         dict(name='rapid', engine='E6', pkg='c19', test='TestC19',
              quick=dict(cases=20000, shards=4), thorough=dict(cases=1600000, shards=16, timeout=5400)),
         dict(name='fuzz', engine='coverage-guided sweep', kind='fuzz', pkg='c19', test='FuzzC19',
              thorough=dict(execs=3000000, timeout=5400)),
     ],
     manifest=dict(
         engine='E6', design_ref='4/C19',
         technique='model-based property testing (rapid state scripts + exhaustive short scripts): two implementations vs a slice-of-slices model, persistence re-read after every step',
         level_text=('Operation scripts against a reference model, both implementations in lock-step, every register re-read after every step so that '
                     'aliasing between a sequence and the sequences derived from it (the classic slice-append bug) is observable; all scripts up to a '
                     'bound over a small alphabet are enumerated. Exploration is the right level for a 40-line ADT.'),
         level_note='trusts the [][]int model and reflect.DeepEqual; element type int only'))

prop('C20',
     level='exploration',
     rule=('generated: N in 2..20, a family of N functions (position-tagged trace appenders on strings, '
           'affine maps mod 1000003, arbitrary lookup tables on [0,7)), 1..3 arguments applied in turn to the one '
           'composed function; oracle: left-to-right fold of the same functions + per-function call counters; '
           'two more families: functions over `any` returning the nil interface for some inputs, and a stage that re-enters the composed function while the outer call is in flight; a third of the scenarios call with the same argument twice in a row; a separate generated part builds two compositions and calls them alternately; a sixth family has one stage panic (error, string, int, struct or pointer value): the composition panics with the very same value, earlier stages applied once, later ones not at all; a separate part (race detector on) executes 2..8 independent scenarios in as many goroutines at once, each repeated 20-30 times: instances of their own share nothing; a mixed family composes stages of different types (int->int, int->string, string->int, string->string) in three fixed type patterns per N (generated table mixed_gen.go), each stage depending on its position; a composition that never returns (self-deadlock) is reported by the deadlock detector of the Go runtime because these parts run without a timer inside the test binary; two more families, executed for every N by the deterministic part only: a stage that recurses through the composed function 1300..2100 levels deep, and 1100 evaluations of one composed function in flight at once (parked in their first stage) while one more call is made; non-trivial = all N functions pairwise different; distinct = different canonical scenario'),
     assumptions=['internal/pipe is exercised as a staged copy of the working-tree source (package pure, imported as verif.stage/purepipe)',
                  'type parameters are instantiated at int, string and any, homogeneously and in three mixed int/string patterns'],
     parts=[
         dict(name='each', engine='E7', pkg='c20', test='TestC20Each', kind='plain', env=dict(VERIF_NO_GO_TIMEOUT='1'),
              quick=dict(shards=1), thorough=dict(shards=1)),
         dict(name='parallel', engine='E7', pkg='c20', test='TestC20Par', race=True, replay_test='TestReplayPar', env=dict(GORACE='halt_on_error=1'),
              quick=dict(cases=150, shards=2), thorough=dict(cases=4000, shards=8, timeout=3000)),
         dict(name='mixed-each', engine='E7', pkg='c20m', test='TestC20MixedEach', kind='plain', quick=dict(shards=1), thorough=dict(shards=1)),
         dict(name='mixed', engine='E7', pkg='c20m', test='TestC20Mixed',
              quick=dict(cases=20000, shards=1), thorough=dict(cases=1000000, shards=8, timeout=1800)),
         dict(name='rapid', engine='E7', pkg='c20', test='TestC20', env=dict(VERIF_NO_GO_TIMEOUT='1'),
              quick=dict(cases=80000, shards=1), thorough=dict(cases=4000000, shards=16, timeout=1800)),
         dict(name='fuzz', engine='coverage-guided sweep', kind='fuzz', pkg='c20', test='FuzzC20',
              thorough=dict(execs=3000000, timeout=2400)),
     ],
     manifest=dict(
         engine='E7', design_ref='4/C20',
         technique='property-based testing (rapid): generated function families vs left-fold oracle, call counters',
         level_text=('Generated search over N, function families and arguments with a fold oracle and call counters; every N in 2..20 is '
                     'additionally covered deterministically. Exploration is the right level: the 19 bodies are parametric one-liners, any '
                     'transposition/omission/duplication/extra call changes a position-tagged trace or a counter on the first case.'),
         level_note='trusts the Go compiler and the staging copy (driver copies internal/pipe/*.go verbatim on every run); absence is not proven beyond the generated cases'))
