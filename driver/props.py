"""Per-property configuration of the checks: which harness package/test decides it,
how many generated cases per tier, and the text that goes into the evidence."""

PROPS = {}


def prop(pid, **kw):
    PROPS[pid] = kw


prop('C20',
     level='exploration',
     rule=('generated: N in 2..20, a family of N functions (position-tagged trace appenders on strings, '
           'affine maps mod 1000003, arbitrary lookup tables on [0,7)), 1..3 arguments applied in turn to the one '
           'composed function; oracle: left-to-right fold of the same functions + per-function call counters; '
           'non-trivial = all N functions pairwise different; distinct = different canonical scenario'),
     assumptions=['internal/pipe is exercised as a staged copy of the working-tree source (package pure, imported as verif.stage/purepipe)',
                  'type parameters are instantiated at int and string only; the generic bodies are parametric in their types'],
     parts=[
         dict(name='each', engine='E7', pkg='c20', test='TestC20Each', kind='plain',
              quick=dict(shards=1), thorough=dict(shards=1)),
         dict(name='rapid', engine='E7', pkg='c20', test='TestC20',
              quick=dict(cases=40000, shards=1), thorough=dict(cases=800000, shards=16, timeout=1800)),
     ])

# ---------------------------------------------------------------------------------------------
# Text for MANIFEST.json (driver/mkmanifest.py)
MANIFEST_TEXT = {}

MANIFEST_TEXT['C20'] = dict(
    engine='E7', design_ref='4/C20',
    technique='property-based testing (rapid): generated function families vs left-fold oracle, call counters',
    level_text=('Generated search over N, function families and arguments with a fold oracle and call counters; every N in 2..20 is '
                'additionally covered deterministically. Exploration is the right level: the 19 bodies are parametric one-liners, any '
                'transposition/omission/duplication/extra call changes a position-tagged trace or a counter on the first case.'),
    level_note='trusts the Go compiler and the staging copy (driver copies internal/pipe/*.go verbatim on every run); absence is not proven beyond the generated cases')
