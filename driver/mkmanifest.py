#!/usr/bin/env python3
"""Regenerate /verif/MANIFEST.json from driver/props.py (single source of truth)."""
import json
import os
import subprocess
import sys

ROOT = os.path.dirname(os.path.dirname(os.path.abspath(__file__)))
sys.path.insert(0, os.path.dirname(os.path.abspath(__file__)))
from props import PROPS, MANIFEST_TEXT  # noqa: E402

ids = [json.loads(l)['id'] for l in open(os.path.join(ROOT, 'properties.jsonl'))]
hooks_commits = []
try:
    out = subprocess.run(['git', '-C', '/repo', 'log', '--format=%H %s'], stdout=subprocess.PIPE, text=True).stdout
    hooks_commits = [l.split()[0] for l in out.splitlines() if ' verif hook' in l or l.split(' ', 1)[1].startswith('hook:')]
except Exception:
    pass

checks = []
for pid in ids:
    if pid not in PROPS or not PROPS[pid].get('claimed', True):
        continue
    cfg = PROPS[pid]
    mt = MANIFEST_TEXT[pid]
    checks.append({
        'property_id': pid,
        'quick_cmd': './check %s quick' % pid,
        'thorough_cmd': './check %s thorough' % pid,
        'evidence_file': 'evidence/%s.json' % pid,
        'replay_cmd_template': './check %s --replay {path}' % pid,
        'engine': mt['engine'],
        'level_claimed': {'category': cfg.get('level', 'exploration'), 'text': mt['level_text'], 'design_ref': mt['design_ref']},
        'level_note': mt['level_note'],
        'technique': mt['technique'],
    })
na = [{'property_id': pid, 'reason': 'check not built yet (planned with property-based testing, see DESIGN.md section 4); not claimed until it exists'}
      for pid in ids if pid not in PROPS or not PROPS[pid].get('claimed', True)]

man = {
    'version': 1,
    'setup_cmd': './check setup',
    'hooks': {
        'guard': 'verif',
        'enable': 'go build tag: the harness builds with `-tags verif` (driver/vdrive.py build())',
        'baseline_off_cmd': "for m in duct hseq optics pipe pure trait; do (cd /repo/$m && GOFLAGS=-mod=mod GOPROXY=off go test -json -vet=off -count=1 -timeout 25m ./...); done",
        'source_commits': hooks_commits,
        'add_only': True,
    },
    'engines': [
        {'name': 'E1', 'path': 'harness/shapegen, harness/optcheck, harness/cmd/shapegen', 'serves_properties': ['C01', 'C02', 'C03', 'C04'], 'kind_free_text': 'generator of Go programs (struct shapes + optics/hseq instantiations) checked against compiler-computed field addresses and byte images'},
        {'name': 'E2', 'path': 'harness/optdyn', 'serves_properties': ['C01', 'C02', 'C03'], 'kind_free_text': 'rapid over reflect.StructOf shapes, reflect addressing as oracle'},
        {'name': 'E3', 'path': 'harness/pipes (engine.go, stages.go, timed.go, unbound.go), harness/bubble', 'serves_properties': ['C05', 'C06', 'C07', 'C08', 'C11', 'C12', 'C13'], 'kind_free_text': 'environment-move scripts executed at quiescent points of a testing/synctest bubble (rapid.SyncTest style), list/FIFO/virtual-time oracles'},
        {'name': 'E4', 'path': 'harness/pipes (forks.go, free.go, gates in engine.go)', 'serves_properties': ['C09', 'C10'], 'kind_free_text': 'E3 plus gates that fix the completion order of in-flight user calls; free-running -race tier'},
        {'name': 'E5', 'path': 'harness/iters, harness/ducts', 'serves_properties': ['C14', 'C15', 'C16'], 'kind_free_text': 'generated combinator expression trees / programs against a list interpreter / stack model'},
        {'name': 'E6', 'path': 'harness/c18, harness/c19', 'serves_properties': ['C18', 'C19'], 'kind_free_text': 'model-based operation histories (rapid), exhaustive small histories'},
        {'name': 'E7', 'path': 'harness/c17, harness/c20', 'serves_properties': ['C17', 'C20'], 'kind_free_text': 'algebraic laws over generated values with order-revealing witnesses'},
    ],
    'checks': checks,
    'not_applicable': na,
    'notes': 'All checks are property-based: generated scenarios (rapid v1.3.0, exhaustive enumerators for small sub-spaces) against explicit oracles; '
             'driver/vdrive.py rebuilds the harness against /repo\'s working tree on every run, shards by VERIF_SEED, writes evidence/<id>.json. '
             'Exit 0 held / 1 VIOLATION / 2 inconclusive (build failure against an edited tree, timeout). known_findings.json lists fixed and known defects.',
}
json.dump(man, open(os.path.join(ROOT, 'MANIFEST.json'), 'w'), indent=1)
print('MANIFEST.json: %d checks claimed, %d not_applicable' % (len(checks), len(na)))
