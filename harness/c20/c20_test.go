package c20

import (
	"fmt"
	"runtime"
	"strconv"
	"strings"
	"sync/atomic"
	"testing"

	"pgregory.net/rapid"
	"verif/harness/vk"
)

func TestMain(m *testing.M) { vk.Main(m) }

// Scenario: N functions of one family, composed once by the real PipeN, then
// called with every argument in Args (several calls catch state kept between calls).
type Scenario struct {
	N      int     `json:"n"`
	Family string  `json:"family"` // "trace" | "affine" | "table" | "anynil" | "reentrant" | "panics" | "recursive" | "parked"
	A      []int   `json:"a"`      // affine: x -> (A*x+B) mod P ; trace: tag index
	B      []int   `json:"b"`
	Table  [][]int `json:"table,omitempty"` // table family: f_i(x) = Table[i][x mod M]
	Args   []int   `json:"args"`
}

const prime = 1000003
const tableM = 7

func gen(t *rapid.T) Scenario {
	sc := Scenario{N: rapid.IntRange(2, 20).Draw(t, "n")}
	sc.Family = rapid.SampledFrom([]string{"trace", "affine", "table", "anynil", "reentrant", "panics"}).Draw(t, "family")
	sc.Args = rapid.SliceOfN(rapid.IntRange(0, prime-1), 1, 3).Draw(t, "args")
	if rapid.IntRange(0, 2).Draw(t, "repeatArg") == 0 {
		sc.Args = append(sc.Args, sc.Args[len(sc.Args)-1]) // the same argument twice in a row
	}
	for i := 0; i < sc.N; i++ {
		switch sc.Family {
		case "trace", "anynil", "reentrant", "panics", "recursive", "parked":
			sc.A = append(sc.A, rapid.IntRange(0, 25).Draw(t, "tag"))
		case "affine":
			sc.A = append(sc.A, rapid.IntRange(2, prime-1).Draw(t, "a"))
			sc.B = append(sc.B, rapid.IntRange(1, prime-1).Draw(t, "b"))
		case "table":
			sc.Table = append(sc.Table, rapid.SliceOfN(rapid.IntRange(0, tableM-1), tableM, tableM).Draw(t, "row"))
		}
	}
	return sc
}

// Run executes the scenario against the real code and the fold model.
func Run(sc Scenario) string {
	calls := make([]int, sc.N)
	switch sc.Family {
	case "trace":
		fs := make([]func(string) string, sc.N)
		for i := range fs {
			tag := "<" + strconv.Itoa(i) + string(rune('a'+sc.A[i])) + ">"
			fs[i] = func(s string) string { calls[i]++; return s + tag }
		}
		h := compose(fs)
		for k, a := range sc.Args {
			got := h(strconv.Itoa(a))
			want := strconv.Itoa(a)
			for i := range fs {
				want += "<" + strconv.Itoa(i) + string(rune('a'+sc.A[i])) + ">"
			}
			if got != want {
				return fmt.Sprintf("call %d: Pipe%d(trace)(%d) = %q, left-to-right fold gives %q", k, sc.N, a, got, want)
			}
			for i, c := range calls {
				if c != k+1 {
					return fmt.Sprintf("call %d: f_%d was applied %d times in total, want %d", k, i+1, c, k+1)
				}
			}
		}
	case "reentrant":
		// one stage (position A[0] mod N) calls the composed function itself once while the outer call is in flight
		at := sc.A[0] % sc.N
		tags := make([]string, sc.N)
		for i := range tags {
			tags[i] = "<" + strconv.Itoa(i) + string(rune('a'+sc.A[i])) + ">"
		}
		var h func(string) string
		depth := 0
		fs := make([]func(string) string, sc.N)
		for i := range fs {
			fs[i] = func(s string) string {
				calls[i]++
				if i == at && depth == 0 {
					depth++
					inner := h("in")
					depth--
					return s + "(" + inner + ")" + tags[i]
				}
				return s + tags[i]
			}
		}
		h = compose(fs)
		plain := func(a string) string {
			for i := range tags {
				a += tags[i]
			}
			return a
		}
		for k, a := range sc.Args {
			got := h(strconv.Itoa(a))
			want := strconv.Itoa(a)
			for i := range tags {
				if i == at {
					want += "(" + plain("in") + ")"
				}
				want += tags[i]
			}
			if got != want {
				return fmt.Sprintf("call %d: Pipe%d with stage %d re-entering the composed function: got %q, want %q", k, sc.N, at+1, got, want)
			}
			for i, c := range calls {
				if c != 2*(k+1) {
					return fmt.Sprintf("call %d: f_%d was applied %d times in total, want %d (outer and re-entrant inner call)", k, i+1, c, 2*(k+1))
				}
			}
		}
	case "recursive":
		// one stage calls the composed function itself, to a depth of 1300..2100: ordinary recursion through a pipeline
		at := sc.A[0] % sc.N
		depth := 1300 + 100*(sc.A[len(sc.A)-1]%9)
		var h func(int) int
		fs := make([]func(int) int, sc.N)
		for i := range fs {
			fs[i] = func(x int) int {
				calls[i]++
				if i == at && x > 0 {
					return 1 + h(x-1)
				}
				return x
			}
		}
		h = compose(fs)
		if got := h(depth); got != depth {
			return fmt.Sprintf("Pipe%d with stage %d recursing through the composed function %d levels deep: got %d, want %d", sc.N, at+1, depth, got, depth)
		}
		for i, c := range calls {
			want := depth + 1
			if c != want {
				return fmt.Sprintf("Pipe%d recursing %d levels deep: f_%d was applied %d times, want %d", sc.N, depth, i+1, c, want)
			}
		}
	case "parked":
		// many evaluations of ONE composed function are in flight at the same time (their first stage waits), then one more
		// call is made: evaluations are independent of each other however many there are
		release := make(chan struct{})
		var parked atomic.Int32
		fs := make([]func(int) int, sc.N)
		for i := range fs {
			fs[i] = func(x int) int {
				if i == 0 && x < 0 {
					parked.Add(1)
					<-release
				}
				return x + i
			}
		}
		h := compose(fs)
		const inFlight = 1100
		results := make(chan int, inFlight)
		for k := 0; k < inFlight; k++ {
			go func() {
				defer func() {
					if r := recover(); r != nil {
						results <- -1 << 40
					}
				}()
				results <- h(-1)
			}()
		}
		for parked.Load() < inFlight {
			runtime.Gosched()
		}
		sum := 0
		for i := 0; i < sc.N; i++ {
			sum += i
		}
		var msg string
		func() {
			defer func() {
				if r := recover(); r != nil {
					msg = fmt.Sprintf("Pipe%d with %d evaluations in flight: one more call panicked: %v", sc.N, inFlight, r)
				}
			}()
			if got := h(5); got != 5+sum {
				msg = fmt.Sprintf("Pipe%d with %d evaluations in flight: h(5) = %d, want %d", sc.N, inFlight, got, 5+sum)
			}
		}()
		close(release)
		for k := 0; k < inFlight; k++ {
			if r := <-results; r != -1+sum && msg == "" {
				msg = fmt.Sprintf("Pipe%d: one of %d evaluations that were in flight together returned %d, want %d", sc.N, inFlight, r, -1+sum)
			}
		}
		return msg
	case "panics":
		// one stage (position A[0] mod N) panics: f_N(...f_k(...)...) then panics with that very value, the stages before it
		// have been applied once, the stages after it not at all - exactly what the nested application does
		at := sc.A[0] % sc.N
		type abort struct{ code int }
		sentinel := &abort{7}
		values := []any{fmt.Errorf("stage failed"), "stage failed", 42, abort{9}, sentinel}
		pv := values[sc.A[1%len(sc.A)]%len(values)]
		fs := make([]func(string) string, sc.N)
		for i := range fs {
			tag := "<" + strconv.Itoa(i) + string(rune('a'+sc.A[i])) + ">"
			fs[i] = func(s string) string {
				calls[i]++
				if i == at {
					panic(pv)
				}
				return s + tag
			}
		}
		h := compose(fs)
		for k, a := range sc.Args {
			var got string
			var rec any
			returned := false
			func() {
				defer func() { rec = recover() }()
				got = h(strconv.Itoa(a))
				returned = true
			}()
			if returned {
				return fmt.Sprintf("call %d: Pipe%d with stage %d panicking (value of type %T) returned %q normally; the nested application f_N(...f_1(a)) panics", k, sc.N, at+1, pv, got)
			}
			if rec != pv {
				return fmt.Sprintf("call %d: Pipe%d with stage %d panicking with %#v: the composition panicked with %#v", k, sc.N, at+1, pv, rec)
			}
			for i, c := range calls {
				want := k + 1
				if i > at {
					want = 0
				}
				if c != want {
					return fmt.Sprintf("call %d: stage %d panics: f_%d was applied %d times in total, want %d", k, at+1, i+1, c, want)
				}
			}
		}
	case "anynil":
		// functions over `any` that legitimately return the nil interface for some inputs: the next
		// function must still be applied (to nil)
		raw := make([]func(any) any, sc.N)
		for i := range raw {
			tag := "<" + strconv.Itoa(i) + string(rune('a'+sc.A[i])) + ">"
			k := sc.A[i]
			raw[i] = func(x any) any {
				s := "nil"
				if x != nil {
					s = x.(string)
				}
				s += tag
				if (len(s)+k)%3 == 0 {
					return nil
				}
				return s
			}
		}
		fs := make([]func(any) any, sc.N)
		for i := range fs {
			fs[i] = func(x any) any { calls[i]++; return raw[i](x) }
		}
		h := compose(fs)
		for k, a := range sc.Args {
			var arg any = strconv.Itoa(a)
			if a%4 == 0 {
				arg = nil
			}
			got := h(arg)
			want := arg
			for i := range raw {
				want = raw[i](want)
			}
			if got != want {
				return fmt.Sprintf("call %d: Pipe%d(anynil)(%v) = %v, left-to-right fold gives %v", k, sc.N, arg, got, want)
			}
			for i, c := range calls {
				if c != k+1 {
					return fmt.Sprintf("call %d: f_%d was applied %d times in total, want %d (an intermediate result was the nil interface)", k, i+1, c, k+1)
				}
			}
		}
	default:
		raw := make([]func(int) int, sc.N)
		for i := range raw {
			if sc.Family == "affine" {
				a, b := sc.A[i], sc.B[i]
				raw[i] = func(x int) int { return (a*x + b) % prime }
			} else {
				row := sc.Table[i]
				raw[i] = func(x int) int { return row[((x%tableM)+tableM)%tableM] }
			}
		}
		fs := make([]func(int) int, sc.N)
		for i := range fs {
			fs[i] = func(x int) int { calls[i]++; return raw[i](x) }
		}
		h := compose(fs)
		for k, a := range sc.Args {
			got := h(a)
			want := a
			for i := range raw {
				want = raw[i](want)
			}
			if got != want {
				return fmt.Sprintf("call %d: Pipe%d(%s)(%d) = %d, left-to-right fold gives %d", k, sc.N, sc.Family, a, got, want)
			}
			for i, c := range calls {
				if c != k+1 {
					return fmt.Sprintf("call %d: f_%d was applied %d times in total, want %d", k, i+1, c, k+1)
				}
			}
		}
	}
	return ""
}

// nontrivial: all f_i pairwise different (then any transposition, omission or
// duplication changes the result of the trace family, and almost surely of the others).
func nontrivial(sc Scenario) bool {
	seen := map[string]bool{}
	for i := 0; i < sc.N; i++ {
		var k string
		switch sc.Family {
		case "trace", "anynil", "reentrant", "panics", "recursive", "parked":
			k = "t" // trace tags carry the position, always distinct
			k += strconv.Itoa(i)
		case "affine":
			k = fmt.Sprint(sc.A[i], ",", sc.B[i])
		default:
			k = fmt.Sprint(sc.Table[i])
		}
		if seen[k] {
			return false
		}
		seen[k] = true
	}
	return true
}

// runPair builds a second, different pipeline of the same arity from the same scenario and calls the two
// alternately: state kept per composed function must not leak into another composed function.
func runPair(sc Scenario) string {
	if sc.Family != "trace" {
		return ""
	}
	mk := func(prefix string) (func(string) string, func(string) string) {
		fs := make([]func(string) string, sc.N)
		for i := range fs {
			tag := "<" + prefix + strconv.Itoa(i) + ">"
			fs[i] = func(s string) string { return s + tag }
		}
		ref := func(a string) string {
			for i := 0; i < sc.N; i++ {
				a += "<" + prefix + strconv.Itoa(i) + ">"
			}
			return a
		}
		return compose(fs), ref
	}
	h1, r1 := mk("x")
	h2, r2 := mk("y")
	for k, a := range sc.Args {
		arg := strconv.Itoa(a)
		if g, w := h1(arg), r1(arg); g != w {
			return fmt.Sprintf("two Pipe%d compositions used alternately, call %d of the first: got %q want %q", sc.N, k, g, w)
		}
		if g, w := h2(arg), r2(arg); g != w {
			return fmt.Sprintf("two Pipe%d compositions used alternately, call %d of the second: got %q want %q", sc.N, k, g, w)
		}
	}
	return ""
}

// runSafe turns a panic that escapes a composition whose stages do not panic into a finding.
func runSafe(sc Scenario) (msg string) {
	defer func() {
		if r := recover(); r != nil {
			if strings.HasPrefix(fmt.Sprintf("%T", r), "*rapid.") || strings.HasPrefix(fmt.Sprintf("%T", r), "rapid.") {
				panic(r)
			}
			msg = fmt.Sprintf("Pipe%d (%s family): the composed function panicked although no stage does: %v", sc.N, sc.Family, r)
		}
	}()
	return Run(sc)
}

func check(t interface{ Fatalf(string, ...any) }, sc Scenario) {
	vk.Journal("C20", "TestC20", sc) // a composition that never returns (self-deadlock) kills the process: the scenario is on file
	msg := runSafe(sc)
	if msg == "" {
		msg = runPair(sc)
	}
	vk.Record(sc, nontrivial(sc), "N="+strconv.Itoa(sc.N), "family="+sc.Family, "calls="+strconv.Itoa(len(sc.Args)))
	if msg != "" {
		vk.Fail("C20", "TestC20", "", sc, msg)
		t.Fatalf("%s", msg)
	}
}

func propC20(t *rapid.T) { check(t, gen(t)) }

func TestC20(t *testing.T) { rapid.Check(t, propC20) }

func FuzzC20(f *testing.F) {
	f.Add([]byte{})
	f.Add([]byte("\x01\x02\x03\x04\x05\x06\x07\x08"))
	f.Fuzz(rapid.MakeFuzz(propC20))
}

// TestC20Each covers every N with every family deterministically (no N can be missed by chance).
func TestC20Each(t *testing.T) {
	for n := 2; n <= 20; n++ {
		for _, fam := range []string{"trace", "affine", "table", "anynil", "reentrant", "panics", "recursive", "parked"} {
			sc := Scenario{N: n, Family: fam, Args: []int{3, 999983, 4, 4}}
			for i := 0; i < n; i++ {
				sc.A = append(sc.A, 2+i)
				sc.B = append(sc.B, 1+2*i)
				row := make([]int, tableM)
				for j := range row {
					row[j] = (j*(i+2) + i + 1) % tableM
				}
				sc.Table = append(sc.Table, row)
			}
			check(t, sc)
		}
	}
	vk.Exhaustive("every N in 2..20 x every function family (fixed pairwise-different functions)")
}

func TestReplay(t *testing.T) {
	var sc Scenario
	ok, err := vk.LoadReplay(&sc)
	if !ok {
		t.Skip("no VERIF_REPLAY")
	}
	if err != nil {
		t.Fatalf("bad replay file: %v", err)
	}
	if msg := runSafe(sc); msg != "" {
		t.Fatalf("%s", msg)
	}
}
