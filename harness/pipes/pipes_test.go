package pipes

import (
	"context"
	"fmt"
	"io"
	"log/slog"
	"reflect"
	"strconv"
	"strings"
	"testing"
	"testing/synctest"

	"github.com/fogfish/golem/pipe/v2"
	"github.com/fogfish/golem/pipe/v2/fork"
	"verif/harness/bubble"

	"pgregory.net/rapid"
	"verif/harness/vk"
)

func TestMain(m *testing.M) {
	slog.SetDefault(slog.New(slog.NewTextHandler(io.Discard, nil))) // pipe.StdErr logs every error
	vk.Main(m)
}

func hasCancel(ms []Move) (bool, bool) {
	any, inBatch := false, false
	for _, m := range ms {
		if m.K == "cancel" {
			any = true
		}
		if m.K == "batch" {
			for _, s := range m.Sub {
				if s.K == "cancel" {
					any, inBatch = true, true
				}
			}
		}
	}
	return any, inBatch
}

func totalLen(in [][]int) int {
	n := 0
	for _, x := range in {
		n += len(x)
	}
	return n
}

// classify: the non-triviality rule of each property, evaluated on the scenario and what happened.
func classify(sc *Scenario, r Result) (bool, []string) {
	cl := []string{"stage=" + sc.Stage}
	if sc.Mode != "" {
		cl = append(cl, "mode="+sc.Mode)
	}
	c0 := sc.Caps0()
	n := totalLen(sc.In)
	switch {
	case c0 == 0:
		cl = append(cl, "cap=0")
	case c0 < n:
		cl = append(cl, "cap<len")
	default:
		cl = append(cl, "cap>=len")
	}
	if r.Backpressure {
		cl = append(cl, "back-pressure-seen")
	}
	if sc.Prefill > 0 {
		cl = append(cl, "input-prefilled-before-stage-created")
	}
	cancel, inBatch := hasCancel(sc.Script)
	if cancel {
		cl = append(cl, "script-cancels")
	}
	if inBatch {
		cl = append(cl, "cancel-in-batch")
	}
	if r.CancelBlocked {
		cl = append(cl, "cancel-while-blocked")
	}
	if sc.NoFinish {
		cl = append(cl, "no-receiver-after-script")
	}
	if sc.PreCancel {
		cl = append(cl, "created-on-a-cancelled-context")
	}
	if sc.Twin {
		cl = append(cl, "independent-twin-instance-alongside")
	}
	switch sc.Prop {
	case "C05":
		if sc.Stage == "take" {
			switch {
			case sc.N == 0:
				cl = append(cl, "take n=0")
			case sc.N < n:
				cl = append(cl, "take n<len")
			case sc.N == n:
				cl = append(cl, "take n=len")
			default:
				cl = append(cl, "take n>len")
			}
		}
		return n >= 2 && (c0 < n || r.Backpressure), cl
	case "C06":
		lastCloseBlocked := false
		return r.CancelBlocked || inBatch || lastCloseBlocked || (cancel && r.Backpressure), cl
	case "C07":
		fails, succ, succAfter := 0, 0, false
		seenFail := false
		if sc.Stage == "map" || sc.Stage == "fmap" {
			for _, x := range sc.In[0] {
				f := false
				for _, v := range sc.Fail {
					f = f || v == x
				}
				if f {
					fails++
					seenFail = true
				} else {
					succ++
					succAfter = succAfter || seenFail
				}
			}
		} else {
			fails, succ, succAfter = len(sc.Fail), 1, len(sc.Fail) > 0
		}
		if fails > 0 {
			cl = append(cl, "has-failing-element")
		}
		return fails >= 1 && succ >= 1 && succAfter, cl
	case "C09":
		cl = append(cl, "par="+strconv.Itoa(sc.Par))
		if r.Reordered {
			cl = append(cl, "release-order!=arrival-order")
		}
		if r.MaxInflight >= 2 {
			cl = append(cl, "inflight>=2")
		}
		return sc.Par >= 2 && n >= sc.Par+1 && r.Reordered, cl
	case "C10":
		cm := sc.cm()
		cl = []string{"monoid=" + cm.name, "par=" + strconv.Itoa(sc.Par)}
		switch {
		case n == 0:
			cl = append(cl, "input-empty")
		case n < sc.Par:
			cl = append(cl, "input<par")
		default:
			cl = append(cl, "input>=par")
		}
		if r.Reordered {
			cl = append(cl, "release-order!=arrival-order")
		}
		return cm.empty != 0 || (n >= sc.Par && sc.Par >= 2), cl
	case "C08":
		cl = []string{"cap=" + strconv.Itoa(sc.Caps0()), "end=" + sc.Mode}
		if sc.Gated {
			cl = append(cl, "after-a-pipe-of-another-element-type")
		}
		if r.Backpressure {
			cl = append(cl, "backlog>=2")
		}
		if r.CancelBlocked {
			cl = append(cl, "drained-to-empty-and-refilled")
		}
		endsWithBacklog := false
		for i, m := range sc.Script {
			if (m.K == "cancel" || m.K == "close") && i > 0 && sc.Script[i-1].K == "burst" {
				endsWithBacklog = true
			}
			if m.K == "batch" {
				for _, sub := range m.Sub {
					if sub.K == "cancel" {
						endsWithBacklog = true
						cl = append(cl, "sends-racing-cancel")
					}
					if sub.K == "par" {
						cl = append(cl, "independent-senders")
					}
				}
			}
		}
		if endsWithBacklog {
			cl = append(cl, "ends-with-backlog")
		}
		return r.Backpressure && (endsWithBacklog || r.CancelBlocked), cl
	case "C11":
		cl = []string{"stage=" + sc.Stage, "mode=" + sc.Mode, "unit=" + strconv.Itoa(sc.Unit)}
		idle := false
		for _, cp := range sc.T.Consume {
			if cp[0] >= 2*max(sc.Freq, 1) {
				idle = true
			}
		}
		if idle {
			cl = append(cl, "consumer-idle-gap")
		}
		if len(sc.T.Consume) == 0 {
			cl = append(cl, "consumer-always-ready")
		}
		if sc.T.CancelAt > 0 {
			cl = append(cl, "cancel-mid-run")
		}
		if len(sc.T.Slow) > 0 {
			cl = append(cl, "step-function-takes-time")
		}
		return r.Received >= 3 && (sc.Caps0() < r.Received || idle), cl
	case "C13":
		cl = []string{"ops=" + strconv.Itoa(sc.Ops), "cap=" + strconv.Itoa(sc.Caps0())}
		stall := false
		for _, cp := range sc.T.Consume {
			if cp[0] >= 2*max(sc.Interval, 1) {
				stall = true
			}
		}
		for _, a := range sc.T.Arrive {
			if a[0] >= 2*max(sc.Interval, 1) {
				stall = true
			}
		}
		if sc.saturated() {
			cl = append(cl, "saturated")
		}
		if stall {
			cl = append(cl, "idle-period-then-burst")
		}
		if sc.T.CancelAt > 0 {
			cl = append(cl, "cancel-mid-run")
		}
		return len(sc.In[0]) >= 2*max(sc.Ops, 1)+1 && (stall || (sc.saturated() && sc.Ops >= 2)), cl
	case "C12":
		nonEmpty := 0
		for _, x := range sc.In {
			if len(x) > 0 {
				nonEmpty++
			}
		}
		cl = append(cl, "k="+strconv.Itoa(min(len(sc.In), 9)))
		// interleaved: the script alternates sends between different inputs
		last, alternations := -1, 0
		for _, m := range sc.Script {
			if (m.K == "send" || m.K == "burst") && len(sc.In) > 0 {
				i := m.I % len(sc.In)
				if last >= 0 && i != last {
					alternations++
				}
				last = i
			}
		}
		return len(sc.In) >= 2 && nonEmpty >= 2 && alternations >= 1, cl
	}
	return true, cl
}

func check(t *testing.T, ft interface{ Fatalf(string, ...any) }, prop, test string, sc *Scenario, attempts int) {
	vk.Journal(prop, test, sc)
	var r Result
	for a := 0; a < attempts; a++ {
		r = Exec(t, sc)
		if r.Msg != "" {
			break
		}
	}
	nt, cl := classify(sc, r)
	vk.Record(sc, nt, cl...)
	if r.Msg != "" {
		vk.Fail(prop, test, "", sc, r.Msg)
		ft.Fatalf("%s", r.Msg)
	}
}

func TestC05(t *testing.T) {
	rapid.Check(t, func(rt *rapid.T) { check(t, rt, "C05", "TestC05", genC05(rt), 1) })
}

// TestC05Seq: Seq/ToSeq are the identity, alone and around a chain of stages (the suite's own usage pattern,
// here over generated inputs and stage chains, inside a bubble so that a stage that never closes is a verdict).
func TestC05Seq(t *testing.T) {
	rapid.Check(t, func(rt *rapid.T) {
		xs := rapid.SliceOfN(rapid.IntRange(-5, 20), 0, 24).Draw(rt, "xs")
		if rapid.IntRange(0, 9).Draw(rt, "long") == 0 {
			n := rapid.IntRange(1000, 2200).Draw(rt, "longLen")
			k := rapid.IntRange(1, 17).Draw(rt, "stride")
			xs = make([]int, n)
			for i := range xs {
				xs[i] = (i*k)%23 - 2
			}
		}
		chain := rapid.SliceOfN(rapid.SampledFrom([]string{"map", "filter", "take", "takeWhile", "fmap"}), 0, 4).Draw(rt, "chain")
		sc := &Scenario{Prop: "C05", Stage: "seq", In: [][]int{xs}, Mode: "pure"}
		genFunc(rt, sc)
		sc.N = rapid.IntRange(0, len(xs)+2).Draw(rt, "n")
		for _, c := range chain {
			sc.Script = append(sc.Script, Move{K: c})
		}
		msg := ""
		b := bubble.Run(t, func() { msg = runSeq(sc) })
		if msg == "" {
			msg = b
		}
		vk.Record(sc, len(xs) >= 2 && len(chain) >= 1, "stage=seq", "chain="+strconv.Itoa(len(chain)))
		if msg != "" {
			vk.Fail("C05", "TestC05Seq", "", sc, msg)
			rt.Fatalf("%s", msg)
		}
	})
}

func runSeq(sc *Scenario) string {
	xs := sc.In[0]
	buf := append([]int{}, xs...)
	in := pipe.Seq(buf...)
	// the caller re-uses its slice once Seq has returned: the stream must hold the values of the call
	for i := range buf {
		buf[i] = -999
	}
	ctx, cancel := context.WithCancel(context.Background())
	defer cancel()
	want := append([]int{}, xs...)
	cur := in
	for _, m := range sc.Script {
		switch m.K {
		case "map":
			cur = pipe.StdErr(pipe.Map(ctx, cur, pipe.Pure(sc.mapf)))
			for i := range want {
				want[i] = sc.mapf(want[i])
			}
		case "filter":
			cur = pipe.Filter(ctx, cur, pipe.Pure(sc.pred))
			w := want[:0:0]
			for _, x := range want {
				if sc.pred(x) {
					w = append(w, x)
				}
			}
			want = w
		case "take":
			cur = pipe.Take(ctx, cur, sc.N)
			want = want[:min(sc.N, len(want))]
		case "takeWhile":
			cur = pipe.TakeWhile(ctx, cur, pipe.Pure(sc.pred))
			k := 0
			for k < len(want) && sc.pred(want[k]) {
				k++
			}
			want = want[:k]
		case "fmap":
			cur = pipe.StdErr(pipe.FMap(ctx, cur, pipe.LiftF(func(ctx context.Context, x int, out chan<- int) error {
				for _, y := range sc.fan(x) {
					select {
					case out <- y:
					case <-ctx.Done():
						return nil
					}
				}
				return nil
			})))
			var w []int
			for _, x := range want {
				w = append(w, sc.fan(x)...)
			}
			want = w
		}
	}
	res := make(chan []int, 1)
	go func() { res <- pipe.ToSeq(cur) }()
	got := <-res // a chain that never closes deadlocks the bubble, which is reported
	if got == nil {
		return "ToSeq returned a nil slice"
	}
	if len(got) != len(want) {
		return fmt.Sprintf("ToSeq(chain %v over Seq(%v)) = %v, list functions give %v", sc.Script, xs, got, want)
	}
	for i := range got {
		if got[i] != want[i] {
			return fmt.Sprintf("ToSeq(chain %v over Seq(%v)) = %v, list functions give %v", sc.Script, xs, got, want)
		}
	}
	// Take/TakeWhile may leave upstream stages blocked on a full output: cancel ends them (bubble exit checks the leak)
	cancel()
	synctest.Wait()
	return ""
}

// TestC05Enum: every script of up to L moves over {send, close, recv 0, recv 1, burst 2} for every stage, capacity 0/1
// and two small inputs (one with a repeated element), each followed by the fair completion phase.
func TestC05Enum(t *testing.T) {
	L := 5
	if vk.Tier() == "thorough" {
		L = 7
	}
	alphabet := []Move{{K: "send"}, {K: "close"}, {K: "recv", I: 0}, {K: "recv", I: 1}, {K: "burst", M: 2}}
	shard, shards := vk.IntEnv("VERIF_SHARD", 0), vk.IntEnv("VERIF_SHARDS", 1)
	cnt := 0
	var rec func(prefix []Move)
	rec = func(prefix []Move) {
		if len(prefix) == L {
			cnt++
			if cnt%shards != shard {
				return
			}
			for _, stage := range c05Stages {
				for _, c := range []int{0, 1} {
					for _, in := range [][]int{{1, 2, 3}, {2, 2, 5}} {
						sc := &Scenario{Prop: "C05", Stage: stage, Mode: "pure", Caps: []int{c}, In: [][]int{in}, A: 1, B: 2, N: 2, Script: append([]Move{}, prefix...)}
						if stage == "fmap" {
							sc.Mode = "liftf"
						}
						check(t, t, "C05", "TestC05", sc, 1)
					}
				}
			}
			return
		}
		for _, m := range alphabet {
			rec(append(prefix, m))
		}
	}
	rec(nil)
	vk.Exhaustive(fmt.Sprintf("all %d scripts of exactly %d moves over {send, close, recv 0, recv 1, burst 2} (shorter ones are their prefixes: invariants run after every move) x 9 stages x capacity {0,1} x inputs {[1 2 3], [2 2 5]}", cnt, L))
}

// TestC08Enum: every script of L moves over {send, recv, drain, burst 3, recv+send without quiescence} x capacity {0,1,2}
// x both ways of ending the stream.
func TestC08Enum(t *testing.T) {
	L := 5
	if vk.Tier() == "thorough" {
		L = 7
	}
	alphabet := []Move{{K: "send"}, {K: "recv"}, {K: "drain"}, {K: "burst", M: 3}, {K: "batch", Sub: []Move{{K: "recv"}, {K: "send"}}}}
	shard, shards := vk.IntEnv("VERIF_SHARD", 0), vk.IntEnv("VERIF_SHARDS", 1)
	cnt := 0
	var rec func(prefix []Move)
	rec = func(prefix []Move) {
		if len(prefix) == L {
			cnt++
			if cnt%shards != shard {
				return
			}
			for _, c := range []int{0, 1, 2} {
				for _, end := range []string{"cancel", "close", "close-cancel"} {
					sc := &Scenario{Prop: "C08", Stage: "unbound", Mode: end, Caps: []int{c}, Script: append([]Move{}, prefix...)}
					checkWith(t, t, "C08", "TestC08", sc, ExecUnbound)
				}
			}
			return
		}
		for _, m := range alphabet {
			rec(append(prefix, m))
		}
	}
	rec(nil)
	vk.Exhaustive(fmt.Sprintf("all %d scripts of exactly %d moves over {send, recv, drain, burst 3, {recv,send} batch} x capacity {0,1,2} x end by cancel / by close of the send side / by close followed by cancel", cnt, L))
}

// TestC12Enum: every script of L moves over two inputs {send 0, send 1, close 0, close 1, recv} x capacities {0,1}^2.
func TestC12Enum(t *testing.T) {
	L := 6
	if vk.Tier() == "thorough" {
		L = 8
	}
	alphabet := []Move{{K: "send", I: 0}, {K: "send", I: 1}, {K: "close", I: 0}, {K: "close", I: 1}, {K: "recv"}}
	shard, shards := vk.IntEnv("VERIF_SHARD", 0), vk.IntEnv("VERIF_SHARDS", 1)
	cnt := 0
	var rec func(prefix []Move)
	rec = func(prefix []Move) {
		if len(prefix) == L {
			cnt++
			if cnt%shards != shard {
				return
			}
			for _, caps := range [][]int{{0, 0}, {0, 1}, {1, 1}} {
				sc := &Scenario{Prop: "C12", Stage: "join", Caps: caps, In: [][]int{{0, 1, 2}, {1000, 1001}}, Script: append([]Move{}, prefix...)}
				check(t, t, "C12", "TestC12", sc, 1)
			}
			return
		}
		for _, m := range alphabet {
			rec(append(prefix, m))
		}
	}
	rec(nil)
	vk.Exhaustive(fmt.Sprintf("all %d scripts of exactly %d moves over {send 0, send 1, close 0, close 1, recv} on two inputs x capacities {0,0},{0,1},{1,1}", cnt, L))
}

func TestC06(t *testing.T) {
	rapid.Check(t, func(rt *rapid.T) {
		sc := genC06(rt)
		check(t, rt, "C06", "TestC06", sc, max(sc.Repeat, 1))
	})
}

func TestC07(t *testing.T) {
	rapid.Check(t, func(rt *rapid.T) { check(t, rt, "C07", "TestC07", genC07(rt), 1) })
}

func checkWith(t *testing.T, ft interface{ Fatalf(string, ...any) }, prop, test string, sc *Scenario, exec func(*testing.T, *Scenario) Result) {
	vk.Journal(prop, test, sc)
	var r Result
	for a := 0; a < max(sc.Repeat, 1); a++ {
		r = exec(t, sc)
		if r.Msg != "" {
			break
		}
	}
	nt, cl := classify(sc, r)
	vk.Record(sc, nt, cl...)
	if r.Msg != "" {
		vk.Fail(prop, test, "", sc, r.Msg)
		ft.Fatalf("%s", r.Msg)
	}
}

func TestC08(t *testing.T) {
	rapid.Check(t, func(rt *rapid.T) { checkWith(t, rt, "C08", "TestC08", genC08(rt), ExecUnbound) })
}

func TestC11(t *testing.T) {
	rapid.Check(t, func(rt *rapid.T) { checkWith(t, rt, "C11", "TestC11", genC11(rt), ExecTimed) })
}

func TestC13(t *testing.T) {
	rapid.Check(t, func(rt *rapid.T) { checkWith(t, rt, "C13", "TestC13", genC13(rt), ExecTimed) })
}

func TestC09(t *testing.T) {
	rapid.Check(t, func(rt *rapid.T) {
		sc := genC09(rt)
		attempts := 1
		if len(sc.Script) > 1 && sc.Script[0].K == "burst" && sc.Script[0].M == 16 && sc.NoFinish {
			attempts = 30 // several calls return at the same instant: which of them overlap is up to the scheduler, sample it
		}
		check(t, rt, "C09", "TestC09", sc, attempts)
	})
}

func TestC10(t *testing.T) {
	rapid.Check(t, func(rt *rapid.T) { check(t, rt, "C10", "TestC10", genC10(rt), 1) })
}

// TestC09Race / TestC10Race: the same scenario families free-running under the race detector.
func raceProp(t *testing.T, prop, test string, gen func(*rapid.T) *Scenario) {
	rapid.Check(t, func(rt *rapid.T) {
		sc := gen(rt)
		sc.Script, sc.Gated, sc.NoFinish, sc.PreCancel = nil, false, false, false
		sc.N = 0
		if rapid.IntRange(0, 3).Draw(rt, "cancel") == 0 {
			sc.N = rapid.IntRange(1, 12).Draw(rt, "cancelAfter")
		}
		// the cancel races the end of the stream (for a fold the only place where a cancel can still matter)
		sc.CancelAtEnd = sc.N == 0 && len(sc.In[0]) > 0 && rapid.IntRange(0, 3).Draw(rt, "cancelAtEnd") == 0
		procs := rapid.SampledFrom([]int{1, 2, 4, 16}).Draw(rt, "gomaxprocs")
		sc.Unit = procs // recorded in the scenario (Unit is otherwise unused by fork scenarios)
		vk.Journal(prop, test, sc)
		msg, timedOut := runFree(sc, procs)
		if timedOut {
			panic("test timed out (free-running tier): " + msg)
		}
		vk.Record(sc, sc.Par >= 2 && len(sc.In[0]) >= sc.Par+1, "free-running", "gomaxprocs="+strconv.Itoa(procs), "stage="+sc.Stage)
		if msg != "" {
			vk.Fail(prop, test, "", sc, msg)
			rt.Fatalf("%s", msg)
		}
	})
}

func TestC09Race(t *testing.T) { raceProp(t, "C09", "TestC09Race", genC09) }
func TestC10Race(t *testing.T) { raceProp(t, "C10", "TestC10Race", genC10) }

func TestReplayFree(t *testing.T) {
	var sc Scenario
	ok, err := vk.LoadReplay(&sc)
	if !ok {
		t.Skip("no VERIF_REPLAY")
	}
	if err != nil {
		t.Fatalf("bad replay file: %v", err)
	}
	for a := 0; a < min(attempts(), 50); a++ {
		msg, timedOut := runFree(&sc, max(sc.Unit, 1))
		if timedOut {
			panic("test timed out (free-running tier): " + msg)
		}
		if msg != "" {
			t.Fatalf("attempt %d: %s", a+1, msg)
		}
	}
}

// TestC10Ref: commutative monoids whose carrier is a reference type and whose Combine merges into its left operand
// (a histogram map, a counter behind a pointer): Empty() hands out a fresh accumulator each time it is asked.
type hist map[int]int

type histMonoid struct{ empties *int }

func (m histMonoid) Empty() hist { *m.empties++; return hist{} }
func (m histMonoid) Combine(a, b hist) hist {
	for k, v := range b {
		a[k] += v
	}
	return a
}

type cnt struct{ n, sum int }
type cntMonoid struct{}

func (cntMonoid) Empty() *cnt { return &cnt{} }
func (cntMonoid) Combine(a, b *cnt) *cnt {
	a.n, a.sum = a.n+b.n, a.sum+b.sum
	return a
}

func TestC10Ref(t *testing.T) {
	rapid.Check(t, func(rt *rapid.T) {
		sc := &Scenario{Prop: "C10", Stage: "fork.fold/ref", Par: rapid.IntRange(1, 6).Draw(rt, "par"), Caps: []int{rapid.IntRange(0, 4).Draw(rt, "cap")},
			In: [][]int{rapid.SliceOfN(rapid.IntRange(0, 5), 0, 16).Draw(rt, "in")}, Monoid: rapid.IntRange(0, 1).Draw(rt, "carrier"), N: rapid.IntRange(0, 1).Draw(rt, "sharedElements")}
		msg := ""
		b := bubble.Run(t, func() { msg = runFoldRef(sc) })
		if msg == "" {
			msg = b
		}
		vk.Record(sc, len(sc.In[0]) >= 2, "stage=fork.fold/ref", "par="+strconv.Itoa(sc.Par))
		if msg != "" {
			vk.Fail("C10", "TestC10Ref", "", sc, msg)
			rt.Fatalf("%s", msg)
		}
	})
}

func runFoldRef(sc *Scenario) string {
	xs := sc.In[0]
	ctx := context.Background()
	if sc.Monoid == 0 {
		want := hist{}
		for _, x := range xs {
			want[x]++
		}
		feed := func() <-chan hist {
			in := make(chan hist, sc.Caps0())
			go func() {
				for _, x := range xs {
					in <- hist{x: 1}
				}
				close(in)
			}()
			return in
		}
		var n1, n2 int
		got, ok := <-fork.Fold[hist](ctx, sc.Par, feed(), histMonoid{&n1})
		seq, ok2 := <-pipe.Fold[hist](ctx, feed(), histMonoid{&n2})
		if !ok || !ok2 || !reflect.DeepEqual(got, want) || !reflect.DeepEqual(seq, want) {
			return fmt.Sprintf("histogram monoid (map carrier, Combine merges into its left operand), %d workers over %v: fork.Fold = %v, pipe.Fold = %v, expected %v", sc.Par, xs, got, seq, want)
		}
		return ""
	}
	want := cnt{}
	for _, x := range xs {
		want.n, want.sum = want.n+1, want.sum+x
	}
	// the caller keeps its elements; when sc.N > 0 equal values are one shared object sent several times
	elems := make([]*cnt, len(xs))
	byVal := map[int]*cnt{}
	for i, x := range xs {
		if sc.N > 0 {
			if byVal[x] == nil {
				byVal[x] = &cnt{1, x}
			}
			elems[i] = byVal[x]
		} else {
			elems[i] = &cnt{1, x}
		}
	}
	feed := func() <-chan *cnt {
		in := make(chan *cnt, sc.Caps0())
		go func() {
			for _, e := range elems {
				in <- e
			}
			close(in)
		}()
		return in
	}
	intact := func(after string) string {
		for i, e := range elems {
			if *e != (cnt{1, xs[i]}) {
				return fmt.Sprintf("counter monoid (pointer carrier, Combine adds into its left operand), %d workers over %v: after %s the caller's element %d reads %+v, it was sent as {1 %d}", sc.Par, xs, after, i, *e, xs[i])
			}
		}
		return ""
	}
	seq, ok2 := <-pipe.Fold[*cnt](ctx, feed(), cntMonoid{})
	if m := intact("pipe.Fold"); m != "" {
		return m
	}
	got, ok := <-fork.Fold[*cnt](ctx, sc.Par, feed(), cntMonoid{})
	if !ok || !ok2 || got == nil || seq == nil || *got != want || *seq != want {
		return fmt.Sprintf("counter monoid (pointer carrier), %d workers over %v (shared element objects: %v): fork.Fold = %+v, pipe.Fold = %+v, expected %+v", sc.Par, xs, sc.N > 0, got, seq, want)
	}
	return intact("fork.Fold")
}

func runPipeFoldRef(sc *Scenario) (msg string) {
	xs := sc.In[0]
	want := cnt{}
	elems := make([]*cnt, len(xs))
	byVal := map[int]*cnt{}
	for i, x := range xs {
		want.n, want.sum = want.n+1, want.sum+x
		if sc.N > 0 {
			if byVal[x] == nil {
				byVal[x] = &cnt{1, x}
			}
			elems[i] = byVal[x]
		} else {
			elems[i] = &cnt{1, x}
		}
	}
	for round := 0; round < 2 && msg == ""; round++ { // the same objects folded twice
		in := make(chan *cnt, sc.Caps0())
		go func() {
			for _, e := range elems {
				in <- e
			}
			close(in)
		}()
		out := pipe.Fold[*cnt](context.Background(), in, cntMonoid{})
		got, ok := <-out
		_, more := <-out
		switch {
		case !ok || got == nil || *got != want || more:
			msg = fmt.Sprintf("pipe.Fold (pointer carrier, Combine adds into its left operand) over %v, round %d: delivered %+v (ok=%v, more=%v), the fold from Empty() is %+v", xs, round, got, ok, more, want)
		default:
			for i, e := range elems {
				if *e != (cnt{1, xs[i]}) {
					msg = fmt.Sprintf("pipe.Fold over %v: the caller's element %d reads %+v afterwards, it was sent as {1 %d}", xs, i, *e, xs[i])
					break
				}
			}
		}
	}
	return msg
}

// TestC05FoldRef: pipe.Fold over a reference-typed carrier whose Combine adds into its left operand.  The fold starts
// from a fresh Empty(), so the element objects the caller sent (shared objects half of the time) are never written to.
func TestC05FoldRef(t *testing.T) {
	rapid.Check(t, func(rt *rapid.T) {
		sc := &Scenario{Prop: "C05", Stage: "fold/ref", Caps: []int{rapid.IntRange(0, 4).Draw(rt, "cap")},
			In: [][]int{rapid.SliceOfN(rapid.IntRange(0, 5), 0, 16).Draw(rt, "in")}, N: rapid.IntRange(0, 1).Draw(rt, "sharedElements")}
		xs := sc.In[0]
		msg := ""
		b := bubble.Run(t, func() { msg = runPipeFoldRef(sc) })
		if msg == "" {
			msg = b
		}
		vk.Record(sc, len(xs) >= 2, "stage=fold/ref", "shared="+strconv.FormatBool(sc.N > 0))
		if msg != "" {
			vk.Fail("C05", "TestC05FoldRef", "", sc, msg)
			rt.Fatalf("%s", msg)
		}
	})
}

func TestC12(t *testing.T) {
	rapid.Check(t, func(rt *rapid.T) { check(t, rt, "C12", "TestC12", genC12(rt), 1) })
}

// canonical consumer scripts of the fault enumeration
func consumerScripts(n int) map[string][]Move {
	feed := []Move{{K: "burst", I: 0, M: 64}}
	valuesFirst := append(append([]Move{}, feed...), Move{K: "drain", I: 0}, Move{K: "drain", I: 1}, Move{K: "drain", I: 0}, Move{K: "drain", I: 1})
	errorsFirst := append(append([]Move{}, feed...), Move{K: "drain", I: 1}, Move{K: "drain", I: 0}, Move{K: "drain", I: 1}, Move{K: "drain", I: 0})
	var alternating []Move
	alternating = append(alternating, feed...)
	for i := 0; i < 2*n+2; i++ {
		alternating = append(alternating, Move{K: "recv", I: i % 2})
	}
	var stepwise []Move
	for i := 0; i < n; i++ {
		stepwise = append(stepwise, Move{K: "send", I: 0}, Move{K: "recv", I: 0}, Move{K: "recv", I: 1})
	}
	return map[string][]Move{"values-first": valuesFirst, "errors-first": errorsFirst, "alternating": alternating, "stepwise": stepwise, "fair-only": {}}
}

// TestC07Enum: every subset of failing positions for inputs up to a bound, x mode x stage x capacity x consumer script.
func TestC07Enum(t *testing.T) {
	maxN := 4
	if vk.Tier() == "thorough" {
		maxN = 6
	}
	shard, shards := vk.IntEnv("VERIF_SHARD", 0), vk.IntEnv("VERIF_SHARDS", 1)
	cnt := 0
	type sm struct{ stage, mode string }
	for _, k := range []sm{{"map", "lift"}, {"map", "try"}, {"fmap", "liftf"}, {"fmap", "tryf"}, {"emit", "lift"}, {"emit", "try"}, {"unfold", "lift"}} {
		for n := 0; n <= maxN; n++ {
			for mask := 0; mask < 1<<n; mask++ {
				for _, c := range []int{0, 1, 2} {
					scripts := consumerScripts(n)
					for _, name := range []string{"values-first", "errors-first", "alternating", "stepwise", "fair-only"} {
						cnt++
						if cnt%shards != shard {
							continue
						}
						sc := &Scenario{Prop: "C07", Stage: k.stage, Mode: k.mode, A: 1, B: 3, Caps: []int{c}, ErrKind: cnt % 5, CtxErr: cnt%2 == 0}
						switch k.stage {
						case "map", "fmap":
							in := make([]int, n)
							for i := range in {
								in[i] = i + 1 // distinct values: position i <-> value i+1
								if mask&(1<<i) != 0 {
									sc.Fail = append(sc.Fail, i+1)
								}
							}
							sc.In = [][]int{in}
							sc.Script = scripts[name]
						case "emit":
							for i := 0; i < n; i++ {
								if mask&(1<<i) != 0 {
									sc.Fail = append(sc.Fail, i)
								}
							}
							sc.Freq, sc.N = 1, n
							sc.Script = genericConsumer(name, n)
						case "unfold":
							// mask over the first n applications: application j is f(x_j)
							x := 5
							sc.Seed = x
							for j := 0; j < n; j++ {
								if mask&(1<<j) != 0 {
									sc.Fail = append(sc.Fail, x)
								}
								x = sc.step(x)
							}
							sc.N = n
							sc.Script = genericConsumer(name, n)
						}
						check(t, t, "C07", "TestC07", sc, 1)
						if name == "fair-only" && (k.stage == "map" || k.stage == "fmap") {
							// the same run with the library's own error reader (StdErr) instead of the harness's
							sc2 := *sc
							sc2.StdErr = true
							check(t, t, "C07", "TestC07", &sc2, 1)
						}
					}
				}
			}
		}
	}
	vk.Exhaustive(fmt.Sprintf("all 2^n failure masks for n <= %d x {Map lift/try, FMap liftf/tryf, Emit lift/try, Unfold lift} x capacity {0,1,2} x 5 canonical consumer scripts", maxN))
}

func genericConsumer(name string, n int) []Move {
	var ms []Move
	switch name {
	case "values-first":
		ms = []Move{{K: "tick", M: n + 1}, {K: "drain", I: 0}, {K: "drain", I: 1}}
	case "errors-first":
		ms = []Move{{K: "tick", M: n + 1}, {K: "drain", I: 1}, {K: "drain", I: 0}}
	case "alternating":
		for i := 0; i < 2*n; i++ {
			ms = append(ms, Move{K: "tick", M: 1}, Move{K: "recv", I: i % 2})
		}
	case "stepwise":
		for i := 0; i < n; i++ {
			ms = append(ms, Move{K: "tick", M: 1}, Move{K: "recv", I: 0}, Move{K: "recv", I: 1})
		}
	}
	return ms
}

// TestC06Cancel: the cancel (and separately the close) placed at EVERY position of fixed scripts.
func TestC06Cancel(t *testing.T) {
	base := []Move{{K: "send"}, {K: "send"}, {K: "recv"}, {K: "send"}, {K: "burst", M: 3}, {K: "recv"}, {K: "recv", I: 1}, {K: "tick", M: 1}, {K: "recv"}, {K: "send"}, {K: "drain"}}
	shard, shards := vk.IntEnv("VERIF_SHARD", 0), vk.IntEnv("VERIF_SHARDS", 1)
	cnt := 0
	for _, stage := range []string{"map", "fmap", "filter", "take", "takeWhile", "partition", "fold", "forEach", "void", "join", "throttle", "unfold", "emit"} {
		modes := []string{"pure"}
		switch stage {
		case "map", "emit":
			modes = []string{"pure", "lift", "try"}
		case "unfold":
			modes = []string{"pure", "lift"}
		case "fmap":
			modes = []string{"liftf", "tryf"}
		}
		for _, mode := range modes {
			for _, c := range []int{0, 1, 3} {
				for pos := 0; pos <= len(base); pos++ {
					for _, what := range []string{"cancel", "close", "batch-cancel-send", "batch-recv-cancel"} {
						for _, nofinish := range []bool{false, true} {
							cnt++
							if cnt%shards != shard {
								continue
							}
							sc := &Scenario{Prop: "C06", Stage: stage, Mode: mode, Caps: []int{c}, In: [][]int{{3, 1, 4, 1, 5, 9, 2, 6}}, A: 1, B: 2, N: 3,
								Fail: []int{4, 2}, Ops: 2, Interval: 2, Freq: 1, Seed: 7, NoFinish: nofinish, CtxErr: cnt%2 == 0, ErrKind: cnt % 5}
							if stage == "join" {
								sc.In = [][]int{{0, 1, 2}, {1000, 1001}, {2000}}
								sc.Caps = []int{c, 0, 1}
							}
							if sc.generator() {
								sc.In = nil
								sc.Fail = []int{2, 40, 26}
							}
							var ins Move
							switch what {
							case "cancel":
								ins = Move{K: "cancel"}
							case "close":
								ins = Move{K: "close"}
							case "batch-cancel-send":
								ins = Move{K: "batch", Sub: []Move{{K: "cancel"}, {K: "send"}}}
							default:
								ins = Move{K: "batch", Sub: []Move{{K: "recv"}, {K: "cancel"}}}
							}
							sc.Script = append(append(append([]Move{}, base[:pos]...), ins), base[pos:]...)
							// batches leave the order of ready select arms to the runtime: repeat to sample it
							check(t, t, "C06", "TestC06", sc, vk.IntEnv("VERIF_C06_REPEAT", 2))
						}
					}
				}
			}
		}
	}
	vk.Exhaustive("cancel / close / {cancel,send} batch / {recv,cancel} batch inserted at every position of an 11-move script, x 13 stages x their modes x capacity {0,1,3} x {fair completion, nobody receives after the script}")
}

func attempts() int { return vk.IntEnv("VERIF_REPLAY_ATTEMPTS", 200) }

func TestReplay(t *testing.T) {
	var sc Scenario
	ok, err := vk.LoadReplay(&sc)
	if !ok {
		t.Skip("no VERIF_REPLAY")
	}
	if err != nil {
		t.Fatalf("bad replay file: %v", err)
	}
	n := attempts()
	for a := 0; a < n; a++ {
		var r Result
		switch {
		case sc.Stage == "fork.fold/ref" || sc.Stage == "fold/ref" || strings.HasPrefix(sc.Stage, "deleg/") || strings.HasPrefix(sc.Stage, "reuse/") || sc.Stage == "unbound/zero-size" || strings.HasPrefix(sc.Stage, "shared/"):
			f := runFoldRef
			if sc.Stage == "fold/ref" {
				f = runPipeFoldRef
			}
			if strings.HasPrefix(sc.Stage, "deleg/") {
				f = runDeleg
			}
			if strings.HasPrefix(sc.Stage, "reuse/") {
				f = runReuse
			}
			if sc.Stage == "unbound/zero-size" {
				f = runZeroSize
			}
			if strings.HasPrefix(sc.Stage, "shared/") {
				f = runShared
			}
			b := bubble.Run(t, func() { r.Msg = f(&sc) })
			if r.Msg == "" {
				r.Msg = b
			}
		case sc.Prop == "C08":
			r = ExecUnbound(t, &sc)
		case sc.Prop == "C11" || sc.Prop == "C13":
			r = ExecTimed(t, &sc)
		default:
			r = Exec(t, &sc)
		}
		if r.Msg != "" {
			t.Fatalf("attempt %d of %d: %s", a+1, n, r.Msg)
		}
	}
}
