package pipes

import (
	"strings"

	"pgregory.net/rapid"
)

// ---- script generators

func genMove(t *rapid.T, nIn, nPorts int, cancel, tick bool) Move {
	kinds := []string{"send", "send", "send", "send", "burst", "burst", "recv", "recv", "recv", "recv", "recv", "drain", "close", "batch"}
	if cancel {
		kinds = append(kinds, "cancel")
	}
	if tick {
		kinds = append(kinds, "tick", "tick", "tick")
	} else {
		kinds = append(kinds, "wait") // a long stretch of (virtual) time passes with the stage in whatever state it is
	}
	m := Move{K: rapid.SampledFrom(kinds).Draw(t, "k")}
	switch m.K {
	case "wait":
		m.M = rapid.SampledFrom([]int{2, 2, 90, 4000}).Draw(t, "seconds")
	case "send", "close":
		m.I = rapid.IntRange(0, max(nIn-1, 0)).Draw(t, "i")
	case "burst":
		m.I = rapid.IntRange(0, max(nIn-1, 0)).Draw(t, "i")
		m.M = rapid.IntRange(1, 6).Draw(t, "m")
	case "recv", "drain":
		m.I = rapid.IntRange(0, max(nPorts-1, 0)).Draw(t, "port")
	case "tick":
		m.M = rapid.IntRange(1, 5).Draw(t, "ticks")
	case "batch":
		n := rapid.IntRange(2, 3).Draw(t, "nsub")
		sub := []string{"send", "recv", "close", "send", "recv"}
		if cancel {
			sub = append(sub, "cancel", "cancel")
		}
		for j := 0; j < n; j++ {
			s := Move{K: rapid.SampledFrom(sub).Draw(t, "sk")}
			switch s.K {
			case "send", "close":
				s.I = rapid.IntRange(0, max(nIn-1, 0)).Draw(t, "i")
			case "recv":
				s.I = rapid.IntRange(0, max(nPorts-1, 0)).Draw(t, "port")
			}
			m.Sub = append(m.Sub, s)
		}
	}
	return m
}

func genScript(t *rapid.T, nIn, nPorts int, cancel, tick bool, maxLen int) []Move {
	n := rapid.IntRange(0, maxLen).Draw(t, "scriptLen")
	out := make([]Move, 0, n)
	for j := 0; j < n; j++ {
		out = append(out, genMove(t, nIn, nPorts, cancel, tick))
	}
	return out
}

func nPortsOf(stage, mode string, stderr bool) int {
	switch stage {
	case "map", "fmap", "unfold", "emit":
		if stderr {
			return 1
		}
		return 2
	case "partition":
		return 2
	}
	return 1
}

func genInput(t *rapid.T, maxLen int) []int {
	return rapid.SliceOfN(rapid.IntRange(0, 20), 0, maxLen).Draw(t, "in")
}

func genCap(t *rapid.T, n int) int {
	return rapid.SampledFrom([]int{0, 0, 1, 2, 3, 8, n}).Draw(t, "cap")
}

// genPrefill: how many elements already sit in the input buffer when the stage is created (mostly none).
func genPrefill(t *rapid.T, sc *Scenario) {
	if c := sc.Caps0(); c > 0 && len(sc.In) > 0 && len(sc.In[0]) > 0 && rapid.IntRange(0, 3).Draw(t, "prefilled") == 0 {
		sc.Prefill = rapid.IntRange(1, min(c, len(sc.In[0]))).Draw(t, "prefill")
	}
}

func genFunc(t *rapid.T, sc *Scenario) {
	sc.F = rapid.IntRange(0, 3).Draw(t, "f")
	sc.A = rapid.IntRange(0, 3).Draw(t, "a")
	sc.B = rapid.IntRange(0, 12).Draw(t, "b")
}

// ---- C05: no cancel, no faults

var c05Stages = []string{"map", "fmap", "filter", "take", "takeWhile", "partition", "fold", "forEach", "void"}

func genC05(t *rapid.T) *Scenario {
	sc := &Scenario{Prop: "C05", Stage: rapid.SampledFrom(c05Stages).Draw(t, "stage")}
	in := genInput(t, 12)
	sc.In = [][]int{in}
	sc.Caps = []int{genCap(t, len(in))}
	genFunc(t, sc)
	switch sc.Stage {
	case "map":
		sc.Mode = rapid.SampledFrom([]string{"pure", "pure", "lift", "try"}).Draw(t, "mode")
		sc.StdErr = rapid.IntRange(0, 3).Draw(t, "stderr") == 0
	case "fmap":
		sc.Mode = rapid.SampledFrom([]string{"liftf", "tryf"}).Draw(t, "mode")
		sc.StdErr = rapid.IntRange(0, 3).Draw(t, "stderr") == 0
	case "take":
		// class first: n = 0, n < len, n = len, n > len
		switch rapid.IntRange(0, 3).Draw(t, "nclass") {
		case 0:
			sc.N = 0
		case 1:
			sc.N = rapid.IntRange(0, max(len(in)-1, 0)).Draw(t, "n")
		case 2:
			sc.N = len(in)
		default:
			sc.N = len(in) + rapid.IntRange(1, 2).Draw(t, "n")
		}
	default:
		sc.Mode = "pure"
	}
	genPrefill(t, sc)
	sc.Twin = rapid.IntRange(0, 4).Draw(t, "twin") == 0
	sc.Script = genScript(t, 1, nPortsOf(sc.Stage, sc.Mode, sc.StdErr), false, false, 40)
	return sc
}

// ---- C07: faults, no cancel (generators are cancelled by the harness after N deliveries)

func genC07(t *rapid.T) *Scenario {
	kind := rapid.SampledFrom([]string{"map/lift", "map/try", "fmap/liftf", "fmap/tryf", "emit/lift", "emit/try", "unfold/lift"}).Draw(t, "kind")
	sc := &Scenario{Prop: "C07"}
	sc.Stage, sc.Mode, _ = strings.Cut(kind, "/")
	genFunc(t, sc)
	sc.ErrKind = rapid.IntRange(0, 4).Draw(t, "errkind")
	sc.CtxErr = rapid.Bool().Draw(t, "ctxerr")
	switch sc.Stage {
	case "map", "fmap":
		n := rapid.IntRange(0, 40).Draw(t, "len")
		if rapid.IntRange(0, 3).Draw(t, "short") > 0 {
			n = min(n, 10)
		}
		in := make([]int, n)
		for i := range in {
			in[i] = rapid.IntRange(0, 30).Draw(t, "x")
		}
		sc.In = [][]int{in}
		sc.Caps = []int{genCap(t, n)}
		sc.Fail = rapid.SliceOfNDistinct(rapid.IntRange(0, 30), 0, 12, rapid.ID[int]).Draw(t, "fail")
		sc.StdErr = rapid.IntRange(0, 4).Draw(t, "stderr") == 0
		genPrefill(t, sc)
		sc.Script = genScript(t, 1, nPortsOf(sc.Stage, sc.Mode, sc.StdErr), false, false, 40)
		sc.Twin = rapid.IntRange(0, 5).Draw(t, "twin") == 0
	case "emit":
		sc.Caps = []int{rapid.IntRange(0, 3).Draw(t, "cap")}
		sc.Freq = rapid.SampledFrom([]int{1, 1, 3}).Draw(t, "freq")
		sc.Fail = rapid.SliceOfNDistinct(rapid.IntRange(0, 14), 0, 8, rapid.ID[int]).Draw(t, "fail")
		sc.N = rapid.IntRange(1, 12).Draw(t, "take")
		sc.Script = genScript(t, 0, 2, false, true, 20)
	case "unfold":
		sc.Caps = []int{rapid.IntRange(0, 3).Draw(t, "cap")}
		sc.Seed = rapid.IntRange(0, 100).Draw(t, "seed")
		sc.Fail = rapid.SliceOfNDistinct(rapid.IntRange(0, 100), 0, 40, rapid.ID[int]).Draw(t, "fail")
		sc.N = rapid.IntRange(1, 12).Draw(t, "take")
		sc.Script = genScript(t, 0, 2, false, false, 20)
	}
	return sc
}

// ---- C12: join

func genC12(t *rapid.T) *Scenario {
	sc := &Scenario{Prop: "C12", Stage: "join"}
	k := rapid.SampledFrom([]int{0, 1, 2, 2, 3, 3, 4, 4, 5, 9, 12}).Draw(t, "k")
	if rapid.IntRange(0, 14).Draw(t, "manyInputs") == 0 {
		k = rapid.SampledFrom([]int{17, 20, 33, 40, 70}).Draw(t, "kBig") // more inputs than processors
	}
	for i := 0; i < k; i++ {
		n := rapid.IntRange(0, 6).Draw(t, "len")
		in := make([]int, n)
		for j := range in {
			in[j] = i*1000 + j
		}
		sc.In = append(sc.In, in)
		sc.Caps = append(sc.Caps, rapid.IntRange(0, 3).Draw(t, "cap"))
	}
	if k >= 2 && rapid.IntRange(0, 7).Draw(t, "aliased") == 0 {
		sc.N = 1 // the first input is handed to Join twice (in place of the last one, whose elements are then never sent)
		sc.In[k-1] = nil
	}
	switch rapid.IntRange(0, 9).Draw(t, "backlog") {
	case 0, 1:
		// the inputs already hold elements when Join is called
		sc.PrefillAll = true
		for i := range sc.Caps {
			sc.Caps[i] = rapid.IntRange(1, 4).Draw(t, "capFull")
		}
	case 2:
		// one input with a large buffer and a backlog (thresholds on the capacity of an input)
		if k >= 1 {
			sc.PrefillAll = true
			n := rapid.IntRange(20, 60).Draw(t, "lenBig")
			sc.In[0] = nil
			for j := 0; j < n; j++ {
				sc.In[0] = append(sc.In[0], j)
			}
			sc.Caps[0] = rapid.SampledFrom([]int{64, 257, 300, 1024, 1025}).Draw(t, "capInput")
		}
	}
	sc.Script = genScript(t, k, 1, false, false, 40+4*k)
	sc.Twin = k > 0 && rapid.IntRange(0, 4).Draw(t, "twin") == 0
	return sc
}

// ---- C06: everything, cancel and close anywhere, receivers possibly absent

var c06Stages = []string{"map", "fmap", "filter", "take", "takeWhile", "partition", "fold", "forEach", "void", "join", "throttle", "unfold", "emit", "map", "fmap"}

func genC06(t *rapid.T) *Scenario {
	sc := &Scenario{Prop: "C06", Stage: rapid.SampledFrom(c06Stages).Draw(t, "stage")}
	genFunc(t, sc)
	sc.ErrKind = rapid.IntRange(0, 4).Draw(t, "errkind")
	sc.CtxErr = rapid.Bool().Draw(t, "ctxerr")
	nIn := 1
	tick := false
	switch sc.Stage {
	case "map":
		sc.Mode = rapid.SampledFrom([]string{"pure", "lift", "try"}).Draw(t, "mode")
		sc.StdErr = rapid.IntRange(0, 2).Draw(t, "stderr") == 0
	case "fmap":
		sc.Mode = rapid.SampledFrom([]string{"liftf", "tryf"}).Draw(t, "mode")
		sc.StdErr = rapid.IntRange(0, 2).Draw(t, "stderr") == 0
	case "join":
		nIn = rapid.SampledFrom([]int{0, 1, 2, 3, 3, 9}).Draw(t, "k")
	case "throttle":
		sc.Ops = rapid.IntRange(1, 4).Draw(t, "ops")
		sc.Interval = rapid.SampledFrom([]int{1, 5}).Draw(t, "interval")
		tick = true
	case "unfold":
		nIn = 0
		sc.Mode = rapid.SampledFrom([]string{"pure", "lift"}).Draw(t, "mode")
		sc.Seed = rapid.IntRange(0, 100).Draw(t, "seed")
		sc.Caps = []int{rapid.IntRange(0, 3).Draw(t, "cap")}
		sc.N = rapid.IntRange(0, 8).Draw(t, "take")
	case "emit":
		nIn = 0
		sc.Mode = rapid.SampledFrom([]string{"pure", "lift", "try"}).Draw(t, "mode")
		sc.Freq = rapid.SampledFrom([]int{1, 2, 1, 2, -1, -2}).Draw(t, "freq") // negative: Emit is given a zero / a negative duration
		sc.Caps = []int{rapid.IntRange(0, 3).Draw(t, "cap")}
		sc.N = rapid.IntRange(0, 8).Draw(t, "take")
		tick = true
	case "take":
		sc.N = rapid.IntRange(0, 8).Draw(t, "n")
	case "filter", "takeWhile", "partition":
		sc.Mode = "pure"
		if rapid.IntRange(0, 3).Draw(t, "errPred") == 0 {
			sc.Mode = rapid.SampledFrom([]string{"lift", "try"}).Draw(t, "mode") // the predicate returns errors for the Fail values
		}
	default:
		if sc.Mode == "" {
			sc.Mode = "pure"
		}
	}
	for i := 0; i < nIn; i++ {
		var in []int
		if sc.Stage == "join" {
			n := rapid.IntRange(0, 5).Draw(t, "len")
			for j := 0; j < n; j++ {
				in = append(in, i*1000+j)
			}
		} else {
			in = genInput(t, 10)
		}
		sc.In = append(sc.In, in)
		sc.Caps = append(sc.Caps, genCap(t, len(in)))
	}
	if sc.Mode != "pure" && sc.Mode != "" {
		hi := 20
		if sc.Stage == "unfold" {
			hi = 100
		}
		sc.Fail = rapid.SliceOfNDistinct(rapid.IntRange(0, hi), 0, 6, rapid.ID[int]).Draw(t, "fail")
	}
	if nIn == 1 {
		genPrefill(t, sc)
	}
	np := nPortsOf(sc.Stage, sc.Mode, sc.StdErr)
	// class first: where the cancel goes
	class := rapid.SampledFrom([]string{"random", "random", "cancel-blocked", "cancel-first", "no-cancel", "cancel-in-batch", "close-then-cancel"}).Draw(t, "class")
	switch class {
	case "random":
		sc.Script = genScript(t, nIn, np, true, tick, 30)
	case "no-cancel":
		sc.Script = genScript(t, nIn, np, false, tick, 30)
	case "cancel-first":
		sc.Script = append([]Move{{K: "cancel"}}, genScript(t, nIn, np, false, tick, 12)...)
	case "cancel-blocked":
		// fill the stage until it is blocked on an output nobody reads, then cancel
		pre := genScript(t, nIn, np, false, tick, 6)
		var fill []Move
		for i := 0; i < nIn; i++ {
			fill = append(fill, Move{K: "burst", I: i, M: 6})
		}
		if tick {
			fill = append(fill, Move{K: "tick", M: 3})
		}
		noRecv := pre[:0:0]
		for _, m := range pre {
			if m.K != "recv" && m.K != "drain" {
				noRecv = append(noRecv, m)
			}
		}
		sc.Script = append(append(noRecv, fill...), Move{K: "cancel"})
		sc.Script = append(sc.Script, genScript(t, nIn, np, false, tick, 6)...)
	case "cancel-in-batch":
		pre := genScript(t, nIn, np, false, tick, 10)
		b := Move{K: "batch", Sub: []Move{{K: rapid.SampledFrom([]string{"send", "recv", "close"}).Draw(t, "with"), I: rapid.IntRange(0, 2).Draw(t, "bi")}, {K: "cancel"}}}
		if rapid.Bool().Draw(t, "cancelFirst") {
			b.Sub[0], b.Sub[1] = b.Sub[1], b.Sub[0]
		}
		sc.Script = append(append(pre, b), genScript(t, nIn, np, false, tick, 6)...)
	case "close-then-cancel":
		pre := genScript(t, nIn, np, false, tick, 10)
		for i := 0; i < nIn; i++ {
			pre = append(pre, Move{K: "close", I: i})
		}
		sc.Script = append(append(pre, genScript(t, nIn, np, false, tick, 4)...), Move{K: "cancel"})
	}
	sc.NoFinish = rapid.IntRange(0, 3).Draw(t, "nofinish") == 0
	sc.PreCancel = rapid.IntRange(0, 9).Draw(t, "precancel") == 0 // built on a context that is cancelled already
	sc.Twin = rapid.IntRange(0, 5).Draw(t, "twin") == 0
	if sc.Stage == "join" && nIn >= 2 && rapid.IntRange(0, 2).Draw(t, "lastSlot") == 0 {
		// several copiers reach for the last free slot of the output at the same instant, then nobody receives and the context is cancelled
		sc.PreCancel, sc.NoFinish, sc.Repeat, sc.Prefill = false, true, 20, 0
		for i := range sc.In {
			sc.Caps[i] = 0
			sc.In[i] = []int{i * 1000, i*1000 + 1, i*1000 + 2, i*1000 + 3}
		}
		sc.Script = nil
		for j := 0; j < nIn-1; j++ {
			sc.Script = append(sc.Script, Move{K: "send", I: j})
		}
		var all []Move
		for j := 0; j < nIn; j++ {
			all = append(all, Move{K: "send", I: j})
		}
		sc.Script = append(sc.Script, Move{K: "batch", Sub: all}, Move{K: "cancel"})
	}
	sc.Deadline = rapid.IntRange(0, 3).Draw(t, "deadline") == 0 // the context ends by deadline instead of an explicit cancel
	return sc
}

// ---- C08: the unbounded channel

func genC08(t *rapid.T) *Scenario {
	sc := &Scenario{Prop: "C08", Stage: "unbound", Caps: []int{rapid.IntRange(0, 4).Draw(t, "cap")}}
	if rapid.IntRange(0, 9).Draw(t, "bigcap") == 0 {
		sc.Caps[0] = rapid.SampledFrom([]int{8, 16, 64, 250}).Draw(t, "capBig")
	}
	sc.Mode = rapid.SampledFrom([]string{"cancel", "cancel", "close", "close-cancel"}).Draw(t, "end")
	n := rapid.IntRange(0, 40).Draw(t, "scriptLen")
	kinds := []string{"send", "send", "send", "send", "burst", "burst", "burst", "recv", "recv", "recv", "recv", "drain", "drain", "batch", "batch", "wait"}
	for j := 0; j < n; j++ {
		m := Move{K: rapid.SampledFrom(kinds).Draw(t, "k")}
		if m.K == "wait" {
			m.M = rapid.SampledFrom([]int{2, 2, 90, 4000}).Draw(t, "seconds")
		}
		if m.K == "burst" {
			m.M = rapid.IntRange(1, 8).Draw(t, "m")
			if rapid.IntRange(0, 19).Draw(t, "big") == 0 {
				m.M = rapid.IntRange(50, 200).Draw(t, "mbig")
			}
		}
		if m.K == "batch" {
			// a receive and a send without an intervening quiescence: the pump wakes up with several arms ready
			k := rapid.IntRange(2, 4).Draw(t, "nsub")
			for i := 0; i < k; i++ {
				sub := Move{K: rapid.SampledFrom([]string{"recv", "recv", "send", "burst", "par"}).Draw(t, "sk")}
				if sub.K == "par" {
					sub.M = rapid.IntRange(1, 4).Draw(t, "sm")
				}
				if sub.K == "burst" {
					sub.M = rapid.IntRange(1, 4).Draw(t, "sm")
				}
				m.Sub = append(m.Sub, sub)
			}
		}
		sc.Script = append(sc.Script, m)
	}
	sc.PreCancel = rapid.IntRange(0, 19).Draw(t, "precancel") == 0
	// sends are also attempted after the cancel (always when the pipe is created on a cancelled context)
	sc.CancelAtEnd = sc.PreCancel || rapid.IntRange(0, 5).Draw(t, "sendAfterCancel") == 0
	sc.Gated = rapid.IntRange(0, 3).Draw(t, "warm") == 0 // a pipe of another element type ran before (shared state between instantiations)
	sc.Twin = rapid.IntRange(0, 4).Draw(t, "twin") == 0  // a second pipe of the same element type is alive alongside
	// how the stream ends: by class
	switch rapid.SampledFrom([]string{"harness", "harness", "cancel-with-backlog", "racing-sends", "racing-sends", "parked-senders", "parked-senders", "close-with-backlog", "close-then-cancel", "buffered-close-racing-cancel"}).Draw(t, "endclass") {
	case "close-then-cancel":
		// the sender closes with a backlog, the pump has seen the close, only then the context is cancelled: everything is still delivered
		sc.Script = append(sc.Script, Move{K: "burst", M: rapid.IntRange(1, 6).Draw(t, "backlog")}, Move{K: "close"}, Move{K: "cancel"})
		if rapid.Bool().Draw(t, "partlyDrained") {
			sc.Script = append(sc.Script, Move{K: "recv"})
		}
	case "buffered-close-racing-cancel":
		// values sit in the send buffer of a closed send side when the cancel arrives (no quiescence in between)
		sc.Script = append(sc.Script, Move{K: "drain"}, Move{K: "batch", Sub: []Move{{K: "dclose", M: rapid.IntRange(1, 4).Draw(t, "direct")}, {K: "cancel"}}})
		sc.Repeat = 6
	case "parked-senders":
		// several independent senders race the cancel: the send buffer is full and more senders are parked on it
		sc.Script = append(sc.Script, Move{K: "batch", Sub: []Move{{K: "burst", M: rapid.IntRange(0, 3).Draw(t, "chain")}, {K: "par", M: rapid.IntRange(2, 8).Draw(t, "parked")}, {K: "cancel"}}})
	case "cancel-with-backlog":
		sc.Script = append(sc.Script, Move{K: "burst", M: rapid.IntRange(1, 6).Draw(t, "backlog")}, Move{K: "cancel"})
	case "racing-sends":
		sc.Script = append(sc.Script, Move{K: "batch", Sub: []Move{{K: "burst", M: rapid.IntRange(1, 6).Draw(t, "racing")}, {K: "cancel"}}})
	case "close-with-backlog":
		sc.Script = append(sc.Script, Move{K: "burst", M: rapid.IntRange(1, 6).Draw(t, "backlog")}, Move{K: "close"})
	}
	sc.Deadline = rapid.IntRange(0, 3).Draw(t, "deadline") == 0 // the context ends by deadline instead of an explicit cancel
	return sc
}

// ---- C11: Emit / Unfold on the virtual clock

func genPattern(t *rapid.T, label string, maxLen, maxGap, maxCount int) [][2]int {
	n := rapid.IntRange(0, maxLen).Draw(t, label+"Len")
	var out [][2]int
	for j := 0; j < n; j++ {
		out = append(out, [2]int{rapid.IntRange(0, maxGap).Draw(t, label+"Gap"), rapid.IntRange(1, maxCount).Draw(t, label+"Count")})
	}
	return out
}

func genC11(t *rapid.T) *Scenario {
	sc := &Scenario{Prop: "C11", Stage: rapid.SampledFrom([]string{"emit", "emit", "unfold"}).Draw(t, "stage")}
	genFunc(t, sc)
	sc.Caps = []int{rapid.IntRange(0, 4).Draw(t, "cap")}
	if rapid.IntRange(0, 9).Draw(t, "bigcap") == 0 {
		sc.Caps[0] = rapid.SampledFrom([]int{8, 16, 64}).Draw(t, "capBig")
	}
	sc.Unit = rapid.SampledFrom([]int{1, 1000000, 1000000000}).Draw(t, "unit")
	sc.Freq = rapid.IntRange(1, 3).Draw(t, "freq")
	sc.N = rapid.IntRange(1, 14).Draw(t, "values")
	sc.Mode = "pure"
	if sc.Stage == "emit" {
		sc.Mode = rapid.SampledFrom([]string{"pure", "pure", "try", "lift"}).Draw(t, "mode")
		if sc.Mode != "pure" {
			sc.Fail = rapid.SliceOfNDistinct(rapid.IntRange(0, 14), 0, 6, rapid.ID[int]).Draw(t, "fail")
		}
	} else {
		sc.Seed = rapid.IntRange(0, 100).Draw(t, "seed")
		if rapid.IntRange(0, 3).Draw(t, "lift") == 0 {
			sc.Mode = "lift"
			sc.Fail = rapid.SliceOfNDistinct(rapid.IntRange(0, 100), 0, 30, rapid.ID[int]).Draw(t, "fail")
		}
	}
	if sc.Stage == "emit" && rapid.IntRange(0, 2).Draw(t, "slowf") == 0 {
		sc.T.Slow = rapid.SliceOfN(rapid.IntRange(0, 3), 1, 4).Draw(t, "slow")
	}
	if sc.Stage == "unfold" && rapid.IntRange(0, 2).Draw(t, "slowstep") == 0 {
		sc.T.Slow = rapid.SliceOfN(rapid.IntRange(1, 3), 1, 4).Draw(t, "slow") // every step takes (virtual) time
	}
	sc.T.Drain = rapid.IntRange(0, 3).Draw(t, "drain") == 0
	// consumer: always ready, or with idle gaps
	if rapid.IntRange(0, 2).Draw(t, "idle") > 0 {
		sc.T.Consume = genPattern(t, "consume", 6, 8, 4)
	}
	if rapid.IntRange(0, 2).Draw(t, "cancelMid") == 0 {
		sc.T.CancelAt = rapid.IntRange(1, 30).Draw(t, "cancelAt")
		sc.T.StopAtCancel = rapid.Bool().Draw(t, "stopAtCancel")
	}
	if sc.Stage == "emit" && sc.Mode == "try" && rapid.IntRange(0, 3).Draw(t, "failingRun") == 0 {
		// the function fails from some index on, the errors are read, and the cancel arrives inside that run:
		// the only place where Emit can notice the cancel is its error path
		k := rapid.IntRange(0, 6).Draw(t, "failFrom")
		sc.Fail = nil
		for i := k; i < k+400; i++ {
			sc.Fail = append(sc.Fail, i)
		}
		sc.N = max(min(sc.N, k), 1)
		sc.T.Consume, sc.T.Slow = nil, nil
		sc.T.CancelAt = (k + 2 + rapid.IntRange(0, 5).Draw(t, "into")) * sc.Freq
		sc.T.StopAtCancel = false
	}
	sc.PreCancel = rapid.IntRange(0, 15).Draw(t, "precancel") == 0
	sc.Twin = rapid.IntRange(0, 5).Draw(t, "twin") == 0         // an independent second instance on the same virtual clock
	sc.Deadline = rapid.IntRange(0, 3).Draw(t, "deadline") == 0 // the context ends by deadline instead of an explicit cancel
	return sc
}

// ---- C13: Throttling on the virtual clock

func genC13(t *rapid.T) *Scenario {
	sc := &Scenario{Prop: "C13", Stage: "throttle"}
	sc.Ops = rapid.IntRange(1, 5).Draw(t, "ops")
	if rapid.IntRange(0, 9).Draw(t, "manyOps") == 0 {
		sc.Ops = rapid.IntRange(6, 12).Draw(t, "opsBig")
	}
	sc.Interval = rapid.IntRange(1, 4).Draw(t, "interval")
	sc.Unit = rapid.SampledFrom([]int{1000000, 1000000000, 7}).Draw(t, "unit")
	sc.Caps = []int{rapid.IntRange(0, 3).Draw(t, "cap")}
	n := rapid.IntRange(0, 30).Draw(t, "len")
	if sc.Ops > 5 {
		n = rapid.IntRange(2*sc.Ops, 5*sc.Ops).Draw(t, "lenBig")
	}
	in := make([]int, n)
	for i := range in {
		in[i] = i + 1
	}
	sc.In = [][]int{in}
	switch rapid.SampledFrom([]string{"saturated", "saturated", "idle-consumer", "idle-input", "random", "random"}).Draw(t, "class") {
	case "saturated":
	case "idle-consumer":
		// input always available; the consumer stalls for several intervals, then drains fast
		sc.T.Consume = [][2]int{{rapid.IntRange(0, 2).Draw(t, "g0") * sc.Interval, rapid.IntRange(0, 3).Draw(t, "r0")},
			{rapid.IntRange(2, 10).Draw(t, "stall") * sc.Interval, rapid.IntRange(1, 4).Draw(t, "r1")}}
	case "idle-input":
		// consumer always ready; the input pauses for several intervals, then a burst arrives
		sc.T.Arrive = [][2]int{{0, rapid.IntRange(0, 4).Draw(t, "b0")}, {rapid.IntRange(2, 10).Draw(t, "pause") * sc.Interval, rapid.IntRange(1, 12).Draw(t, "b1")},
			{rapid.IntRange(0, 6).Draw(t, "pause2") * sc.Interval, rapid.IntRange(1, 12).Draw(t, "b2")}}
	default:
		sc.T.Arrive = genPattern(t, "arrive", 5, 12, 8)
		sc.T.Consume = genPattern(t, "consume", 5, 12, 8)
	}
	if rapid.IntRange(0, 5).Draw(t, "cancelMid") == 0 {
		sc.T.CancelAt = rapid.IntRange(1, 40).Draw(t, "cancelAt")
	}
	sc.PreCancel = rapid.IntRange(0, 19).Draw(t, "precancel") == 0
	sc.Twin = rapid.IntRange(0, 5).Draw(t, "twin") == 0         // an independent second instance on the same virtual clock
	sc.Deadline = rapid.IntRange(0, 3).Draw(t, "deadline") == 0 // the context ends by deadline instead of an explicit cancel
	return sc
}

// ---- C09 / C10: fork stages with gated workers

var c09Stages = []string{"fork.map", "fork.map", "fork.fmap", "fork.filter", "fork.partition", "fork.forEach", "fork.void"}

func genForkScript(t *rapid.T, np int, cancel bool, maxLen int) []Move {
	n := rapid.IntRange(0, maxLen).Draw(t, "scriptLen")
	kinds := []string{"send", "send", "send", "burst", "burst", "recv", "recv", "recv", "drain", "release", "release", "release", "release", "releaseAll", "close", "batch", "wait"}
	if cancel {
		kinds = append(kinds, "cancel")
	}
	var out []Move
	for j := 0; j < n; j++ {
		m := Move{K: rapid.SampledFrom(kinds).Draw(t, "k")}
		switch m.K {
		case "burst":
			m.M = rapid.IntRange(1, 8).Draw(t, "m")
		case "wait":
			m.M = rapid.SampledFrom([]int{2, 2, 90, 4000}).Draw(t, "seconds")
		case "recv", "drain":
			m.I = rapid.IntRange(0, max(np-1, 0)).Draw(t, "port")
		case "release":
			m.I = rapid.IntRange(0, 7).Draw(t, "which")
		case "batch":
			k := rapid.IntRange(2, 3).Draw(t, "nsub")
			sub := []string{"send", "recv", "release", "release", "close"}
			if cancel {
				sub = append(sub, "cancel")
			}
			for i := 0; i < k; i++ {
				s := Move{K: rapid.SampledFrom(sub).Draw(t, "sk")}
				if s.K == "release" {
					s.I = rapid.IntRange(0, 7).Draw(t, "which")
				}
				if s.K == "recv" {
					s.I = rapid.IntRange(0, max(np-1, 0)).Draw(t, "port")
				}
				m.Sub = append(m.Sub, s)
			}
		}
		out = append(out, m)
	}
	return out
}

func genC09(t *rapid.T) *Scenario {
	sc := &Scenario{Prop: "C09", Stage: rapid.SampledFrom(c09Stages).Draw(t, "stage"), Gated: true}
	sc.Par = rapid.IntRange(1, 6).Draw(t, "par")
	if rapid.IntRange(0, 11).Draw(t, "manyWorkers") == 0 {
		sc.Par = rapid.SampledFrom([]int{8, 16, 32}).Draw(t, "parBig")
	}
	genFunc(t, sc)
	in := rapid.SliceOfN(rapid.IntRange(0, 20), 0, 16).Draw(t, "in")
	sc.In = [][]int{in}
	sc.Caps = []int{rapid.IntRange(0, 3).Draw(t, "cap")}
	sc.ErrKind = rapid.IntRange(0, 4).Draw(t, "errkind")
	sc.CtxErr = rapid.Bool().Draw(t, "ctxerr")
	switch sc.Stage {
	case "fork.map":
		sc.Mode = rapid.SampledFrom([]string{"pure", "try", "try", "lift"}).Draw(t, "mode")
	case "fork.fmap":
		sc.Mode = rapid.SampledFrom([]string{"tryf", "tryf", "liftf"}).Draw(t, "mode")
	case "fork.filter", "fork.partition":
		sc.Mode = "pure"
		if rapid.IntRange(0, 3).Draw(t, "errPred") == 0 {
			sc.Mode = rapid.SampledFrom([]string{"lift", "try"}).Draw(t, "mode") // the predicate returns errors for the Fail values
		}
	default:
		sc.Mode = "pure"
	}
	if sc.Mode != "pure" {
		sc.Fail = rapid.SliceOfNDistinct(rapid.IntRange(0, 20), 0, 8, rapid.ID[int]).Draw(t, "fail")
		sc.StdErr = rapid.IntRange(0, 4).Draw(t, "stderr") == 0
	}
	genPrefill(t, sc)
	np := nPortsOf(sc.Stage[5:], sc.Mode, sc.StdErr)
	switch rapid.SampledFrom([]string{"random", "random", "no-cancel", "hold-one", "cancel-inflight", "simultaneous-release"}).Draw(t, "class") {
	case "simultaneous-release":
		// all workers busy, the output buffer one short of full, then every in-flight call returns at once; nobody receives
		sc.Script = []Move{{K: "burst", M: 16}}
		fill := rapid.IntRange(0, sc.Par).Draw(t, "prefillOut")
		if rapid.Bool().Draw(t, "oneSlotLeft") {
			fill = sc.Par - 1 // the output buffer (capacity = workers) has exactly one free slot when the calls return
		}
		for k := 0; k < fill; k++ {
			sc.Script = append(sc.Script, Move{K: "release", I: rapid.IntRange(0, 5).Draw(t, "which")})
		}
		if rapid.Bool().Draw(t, "oneWakeUp") {
			sc.Script = append(sc.Script, Move{K: "barrier"})
		} else {
			var all []Move
			for k := 0; k < sc.Par; k++ {
				all = append(all, Move{K: "release", I: 0})
			}
			sc.Script = append(sc.Script, Move{K: "batch", Sub: all})
		}
		if rapid.Bool().Draw(t, "thenCancel") {
			sc.Script = append(sc.Script, Move{K: "cancel"})
		}
	case "random":
		sc.Script = genForkScript(t, np, true, 40)
	case "no-cancel":
		sc.Script = genForkScript(t, np, false, 40)
	case "hold-one":
		// one call is held back until everything else is done and the input is closed
		sc.Script = []Move{{K: "burst", M: 16}, {K: "close"}}
		for k := 0; k < 24; k++ {
			sc.Script = append(sc.Script, Move{K: "release", I: 1 + rapid.IntRange(0, 4).Draw(t, "which")}, Move{K: "drain", I: 0}, Move{K: "drain", I: 1})
		}
		sc.Script = append(sc.Script, Move{K: "recv", I: 0}, Move{K: "recv", I: 1}, Move{K: "release", I: 0})
	case "cancel-inflight":
		sc.Script = append(genForkScript(t, np, false, 10), Move{K: "burst", M: 8}, Move{K: "cancel"})
		sc.Script = append(sc.Script, genForkScript(t, np, false, 6)...)
	}
	sc.NoFinish = rapid.IntRange(0, 4).Draw(t, "nofinish") == 0
	sc.PreCancel = rapid.IntRange(0, 11).Draw(t, "precancel") == 0
	sc.Twin = rapid.IntRange(0, 5).Draw(t, "twin") == 0
	if len(sc.Script) > 1 && sc.Script[0].K == "burst" && sc.Script[0].M == 16 && sc.Script[len(sc.Script)-1].K != "release" {
		sc.NoFinish = sc.NoFinish || rapid.Bool().Draw(t, "nobodyReceives") // simultaneous-release class
	}
	sc.Deadline = rapid.IntRange(0, 3).Draw(t, "deadline") == 0 // the context ends by deadline instead of an explicit cancel
	return sc
}

func genC10(t *rapid.T) *Scenario {
	sc := &Scenario{Prop: "C10", Stage: "fork.fold", Gated: true, Mode: "pure"}
	sc.Par = rapid.IntRange(1, 6).Draw(t, "par")
	if rapid.IntRange(0, 11).Draw(t, "manyWorkers") == 0 {
		sc.Par = rapid.SampledFrom([]int{8, 16, 32}).Draw(t, "parBig")
	}
	sc.Monoid = rapid.IntRange(0, len(cmonoids)-1).Draw(t, "monoid")
	cm := sc.cm()
	// length by class: empty, shorter than the worker count, longer
	var n int
	switch rapid.IntRange(0, 3).Draw(t, "lenclass") {
	case 0:
		n = 0
	case 1:
		n = rapid.IntRange(0, sc.Par).Draw(t, "n")
	default:
		n = rapid.IntRange(min(sc.Par, 15), 15).Draw(t, "n")
	}
	long := cm.name != "product/1" && rapid.IntRange(0, 5).Draw(t, "long") == 0
	if long {
		n = rapid.IntRange(60, 200).Draw(t, "nlong") // long inputs sitting in a large buffer (batching thresholds)
	}
	raw := make([]int, n)
	if long {
		k := rapid.IntRange(1, 19).Draw(t, "stride")
		for i := range raw {
			raw[i] = (i * k) % 21
		}
	} else {
		raw = rapid.SliceOfN(rapid.IntRange(0, 20), n, n).Draw(t, "in")
	}
	in := make([]int, n)
	for i, x := range raw {
		in[i] = cm.elem(i, x)
	}
	sc.In = [][]int{in}
	sc.Caps = []int{rapid.IntRange(0, 3).Draw(t, "cap")}
	if rapid.IntRange(0, 2).Draw(t, "bigcap") == 0 {
		sc.Caps[0] = rapid.IntRange(4, 8).Draw(t, "cap8")
	}
	if long {
		sc.Caps[0] = rapid.SampledFrom([]int{64, 100, 128, n}).Draw(t, "capLong")
		sc.Prefill = rapid.IntRange(0, min(sc.Caps[0], n)).Draw(t, "prefillLong")
	} else {
		genPrefill(t, sc)
	}
	cancel := rapid.IntRange(0, 3).Draw(t, "cancel") == 0
	sc.Script = genForkScript(t, 1, cancel, 40)
	if long {
		sc.Gated = rapid.Bool().Draw(t, "gatedLong") // ungated: the workers race each other for the buffered values
	}
	sc.PreCancel = rapid.IntRange(0, 15).Draw(t, "precancel") == 0
	sc.Twin = !long && rapid.IntRange(0, 5).Draw(t, "twin") == 0
	sc.Deadline = rapid.IntRange(0, 3).Draw(t, "deadline") == 0 // the context ends by deadline instead of an explicit cancel
	return sc
}
