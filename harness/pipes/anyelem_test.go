package pipes

import (
	"context"
	"fmt"
	"sort"
	"strconv"
	"testing"
	"testing/synctest"
	"time"

	"github.com/fogfish/golem/pipe/v2"
	"github.com/fogfish/golem/pipe/v2/fork"
	"github.com/fogfish/golem/pure/monoid"
	"pgregory.net/rapid"
	"verif/harness/bubble"
	"verif/harness/vk"
)

// Elements of type `any`: the nil interface, zero values, strings, non-comparable values (slices), pointers.
// The stages are generic; this instantiation shows element-dependent behaviour (a nil or zero element skipped,
// elements compared with ==) that int streams cannot.

var sharedPtr = new(int)

func anyVal(code int) any {
	switch code % 8 {
	case 0:
		return nil
	case 1:
		return 0
	case 2:
		return ""
	case 3:
		return []int{code}
	case 4:
		return sharedPtr
	case 5:
		return (*int)(nil) // typed nil inside a non-nil interface
	case 6:
		return map[string]int{"c": code}
	}
	return code
}

func anyCode(v any) int {
	switch x := v.(type) {
	case nil:
		return 0
	case int:
		if x == 0 {
			return 1
		}
		return x
	case string:
		return 2
	case []int:
		return x[0]
	case *int:
		if x == nil {
			return 5
		}
		return 4
	case map[string]int:
		return x["c"]
	}
	return -1
}

// codes are chosen so that anyCode(anyVal(c)) == c
func genCodes(t *rapid.T) []int {
	n := rapid.IntRange(0, 12).Draw(t, "len")
	out := make([]int, n)
	for i := range out {
		k := rapid.IntRange(0, 7).Draw(t, "kind")
		switch k {
		case 3, 6, 7:
			out[i] = k + 8*rapid.IntRange(1, 5).Draw(t, "payload")
		default:
			out[i] = k
		}
	}
	return out
}

func feedAny(ctx context.Context, xs []int, capacity int) <-chan any {
	in := make(chan any, capacity)
	go func() {
		defer close(in)
		for _, c := range xs {
			select {
			case in <- anyVal(c):
			case <-ctx.Done(): // the stage stopped reading (Take, TakeWhile): the harness cancels at the end
				return
			}
		}
	}()
	return in
}

func drainCodes(ch <-chan any) []int {
	out := []int{}
	for v := range ch {
		out = append(out, anyCode(v))
	}
	return out
}

func sameInts(a, b []int) bool { return fmt.Sprint(a) == fmt.Sprint(b) }

func sortedInts(a []int) []int { b := append([]int{}, a...); sort.Ints(b); return b }

func runAnyElements(sc *Scenario) string {
	xs := sc.In[0]
	c := sc.Caps0()
	ctx, cancel := context.WithCancel(context.Background())
	defer cancel()
	keep := func(v any) bool { return anyCode(v)%3 != sc.B%3 }
	wantKeep, wantDrop, wantWhile := []int{}, []int{}, []int{}
	stop := false
	for _, x := range xs {
		if x%3 != sc.B%3 {
			wantKeep = append(wantKeep, x)
			if !stop {
				wantWhile = append(wantWhile, x)
			}
		} else {
			wantDrop = append(wantDrop, x)
			stop = true
		}
	}
	n := sc.N
	switch sc.Stage {
	case "any.map":
		got := drainCodes(pipe.StdErr(pipe.Map(ctx, feedAny(ctx, xs, c), pipe.Pure(func(v any) any { return v }))))
		if !sameInts(got, xs) {
			return fmt.Sprintf("Map(identity) over elements of type any %v delivered %v", xs, got)
		}
	case "any.filter":
		got := drainCodes(pipe.Filter(ctx, feedAny(ctx, xs, c), pipe.Pure(keep)))
		if !sameInts(got, wantKeep) {
			return fmt.Sprintf("Filter over elements of type any %v delivered %v, want %v", xs, got, wantKeep)
		}
	case "any.take":
		got := drainCodes(pipe.Take(ctx, feedAny(ctx, xs, c), n))
		if want := xs[:min(n, len(xs))]; !sameInts(got, want) {
			return fmt.Sprintf("Take(%d) over elements of type any %v delivered %v", n, xs, got)
		}
	case "any.takeWhile":
		got := drainCodes(pipe.TakeWhile(ctx, feedAny(ctx, xs, c), pipe.Pure(keep)))
		if !sameInts(got, wantWhile) {
			return fmt.Sprintf("TakeWhile over elements of type any %v delivered %v, want %v", xs, got, wantWhile)
		}
	case "any.partition":
		l, r := pipe.Partition(ctx, feedAny(ctx, xs, c), pipe.Pure(keep))
		res := make(chan []int, 1)
		go func() { res <- drainCodes(r) }()
		gl := drainCodes(l)
		gr := <-res
		if !sameInts(gl, wantKeep) || !sameInts(gr, wantDrop) {
			return fmt.Sprintf("Partition over elements of type any %v delivered %v | %v, want %v | %v", xs, gl, gr, wantKeep, wantDrop)
		}
	case "any.fold":
		m := monoid.FromOp[any]("", func(a, b any) any { return a.(string) + "," + strconv.Itoa(anyCode(b)) })
		want := ""
		for _, x := range xs {
			want += "," + strconv.Itoa(x)
		}
		if got, ok := <-pipe.Fold(ctx, feedAny(ctx, xs, c), m); !ok || got != any(want) {
			return fmt.Sprintf("Fold over elements of type any %v delivered %v (%v), want %q", xs, got, ok, want)
		}
	case "any.join":
		h := len(xs) / 2
		got := drainCodes(pipe.Join(ctx, feedAny(ctx, xs[:h], c), feedAny(ctx, xs[h:], c)))
		if !sameInts(sortedInts(got), sortedInts(xs)) {
			return fmt.Sprintf("Join over elements of type any %v | %v delivered %v", xs[:h], xs[h:], got)
		}
	case "any.seq":
		vals := make([]any, len(xs))
		for i, x := range xs {
			vals[i] = anyVal(x)
		}
		got := pipe.ToSeq(pipe.Seq(vals...))
		codes := []int{}
		for _, v := range got {
			codes = append(codes, anyCode(v))
		}
		if !sameInts(codes, xs) {
			return fmt.Sprintf("ToSeq(Seq(...)) over elements of type any %v gave %v", xs, codes)
		}
	case "any.unbound":
		rcv, snd := pipe.New[any](ctx, c)
		go func() {
			for _, x := range xs {
				snd <- anyVal(x)
			}
			if sc.Mode == "close" {
				close(snd)
			} else {
				cancel()
			}
		}()
		if got := drainCodes(rcv); !sameInts(got, xs) {
			return fmt.Sprintf("pipe.New[any] (end by %s) delivered %v, sent %v", sc.Mode, got, xs)
		}
	case "any.fork.map":
		out, exx := fork.Map(ctx, max(sc.Par, 1), feedAny(ctx, xs, c), fork.Pure(func(v any) any { return v }))
		got := drainCodes(fork.StdErr(out, exx))
		if !sameInts(sortedInts(got), sortedInts(xs)) {
			return fmt.Sprintf("fork.Map(identity, %d workers) over elements of type any %v delivered %v", sc.Par, xs, got)
		}
	case "any.fork.filter":
		got := drainCodes(fork.Filter(ctx, max(sc.Par, 1), feedAny(ctx, xs, c), fork.Pure(keep)))
		if !sameInts(sortedInts(got), sortedInts(wantKeep)) {
			return fmt.Sprintf("fork.Filter(%d workers) over elements of type any %v delivered %v, want %v", sc.Par, xs, got, wantKeep)
		}
	}
	cancel()
	synctest.Wait()
	return ""
}

var anyStages = []string{"any.map", "any.filter", "any.take", "any.takeWhile", "any.partition", "any.fold", "any.join", "any.seq", "any.unbound", "any.fork.map", "any.fork.filter"}

func anyProp(prop string, stages []string) func(t *testing.T) {
	return func(t *testing.T) {
		rapid.Check(t, func(rt *rapid.T) {
			sc := &Scenario{Prop: prop, Stage: rapid.SampledFrom(stages).Draw(rt, "stage"), In: [][]int{genCodes(rt)}, Caps: []int{rapid.IntRange(0, 3).Draw(rt, "cap")},
				B: rapid.IntRange(0, 2).Draw(rt, "b"), N: rapid.IntRange(0, 8).Draw(rt, "n"), Par: rapid.IntRange(1, 4).Draw(rt, "par"), Mode: rapid.SampledFrom([]string{"cancel", "close"}).Draw(rt, "end")}
			msg := ""
			b := bubble.Run(t, func() { msg = runAnyElements(sc) })
			if msg == "" {
				msg = b
			}
			zeroish := false
			for _, x := range sc.In[0] {
				zeroish = zeroish || x%8 <= 2 || x%8 == 5
			}
			vk.Record(sc, zeroish && len(sc.In[0]) >= 2, "stage="+sc.Stage, "elements-of-type-any")
			if msg != "" {
				vk.Fail(prop, "Test"+prop+"Any", "", sc, msg)
				rt.Fatalf("%s", msg)
			}
		})
	}
}

func TestC05Any(t *testing.T) {
	anyProp("C05", []string{"any.map", "any.filter", "any.take", "any.takeWhile", "any.partition", "any.fold", "any.seq"})(t)
}
func TestC08Any(t *testing.T) { anyProp("C08", []string{"any.unbound"})(t) }
func TestC09Any(t *testing.T) { anyProp("C09", []string{"any.fork.map", "any.fork.filter"})(t) }
func TestC12Any(t *testing.T) { anyProp("C12", []string{"any.join"})(t) }

func TestReplayAny(t *testing.T) {
	var sc Scenario
	ok, err := vk.LoadReplay(&sc)
	if !ok {
		t.Skip("no VERIF_REPLAY")
	}
	if err != nil {
		t.Fatalf("bad replay file: %v", err)
	}
	for a := 0; a < 50; a++ {
		msg := ""
		b := bubble.Run(t, func() { msg = runAnyElements(&sc) })
		if msg == "" {
			msg = b
		}
		if msg != "" {
			t.Fatalf("%s", msg)
		}
	}
}

// ---- the thin delegations of package fork (Emit, Unfold, TakeWhile): fork.Pure / Lift / Try are converted into the
// pipe morphism of the same failure mode (fork/function.go: "causes the failure of channel, aborts" / "causes the failure
// of step, continues"), so each must behave exactly like the pipe stage given the pipe morphism of that mode.

type delegOut struct {
	vals   []int
	errs   []string
	closed bool
}

func collectDeleg(out <-chan int, exx <-chan error, n int, cancel context.CancelFunc) delegOut {
	var r delegOut
	errsDone := make(chan struct{})
	var errs []string
	stop := make(chan struct{})
	go func() {
		defer close(errsDone)
		for {
			select {
			case e, ok := <-exx:
				if !ok {
					return
				}
				errs = append(errs, e.Error())
			case <-stop:
				return
			}
		}
	}()
	for len(r.vals) < n {
		v, ok := <-out
		if !ok {
			r.closed = true
			break
		}
		r.vals = append(r.vals, v)
	}
	synctest.Wait() // every error that precedes the next value has been received by now
	close(stop)
	<-errsDone
	r.errs = append([]string{}, errs...)
	cancel()
	for range out {
	}
	if exx != nil {
		for range exx {
		}
	}
	return r
}

func runDeleg(sc *Scenario) string {
	fails := map[int]bool{}
	for _, x := range sc.Fail {
		fails[x] = true
	}
	step := func(x int) (int, error) {
		if sc.Mode != "pure" && fails[x] {
			return -x, fmt.Errorf("E%d", x)
		}
		return sc.A*x + sc.B, nil
	}
	pred := func(x int) (bool, error) {
		if sc.Mode != "pure" && fails[x] {
			return x%2 == 0, fmt.Errorf("E%d", x)
		}
		return x < sc.N, nil
	}
	var fi fork.F[int, int]
	var pi pipe.F[int, int]
	var fb fork.F[int, bool]
	var pb pipe.F[int, bool]
	switch sc.Mode {
	case "pure":
		fi, pi = fork.Pure(func(x int) int { v, _ := step(x); return v }), pipe.Pure(func(x int) int { v, _ := step(x); return v })
		fb, pb = fork.Pure(func(x int) bool { v, _ := pred(x); return v }), pipe.Pure(func(x int) bool { v, _ := pred(x); return v })
	case "lift":
		fi, pi, fb, pb = fork.Lift(step), pipe.Lift(step), fork.Lift(pred), pipe.Lift(pred)
	default:
		fi, pi, fb, pb = fork.Try(step), pipe.Try(step), fork.Try(pred), pipe.Try(pred)
	}
	var a, b delegOut
	switch sc.Stage {
	case "deleg/takeWhile":
		ctx, cancel := context.WithCancel(context.Background())
		defer cancel()
		a.vals = fork.ToSeq(fork.TakeWhile(ctx, fork.Seq(sc.In[0]...), fb))
		b.vals = pipe.ToSeq(pipe.TakeWhile(ctx, pipe.Seq(sc.In[0]...), pb))
	case "deleg/unfold":
		ctx1, c1 := context.WithCancel(context.Background())
		o, e := fork.Unfold(ctx1, sc.Caps0(), sc.Seed, fi)
		a = collectDeleg(o, e, sc.Ops, c1)
		ctx2, c2 := context.WithCancel(context.Background())
		o, e = pipe.Unfold(ctx2, sc.Caps0(), sc.Seed, pi)
		b = collectDeleg(o, e, sc.Ops, c2)
	default:
		ctx1, c1 := context.WithCancel(context.Background())
		o, e := fork.Emit(ctx1, sc.Caps0(), time.Millisecond, fi)
		a = collectDeleg(o, e, sc.Ops, c1)
		ctx2, c2 := context.WithCancel(context.Background())
		o, e = pipe.Emit(ctx2, sc.Caps0(), time.Millisecond, pi)
		b = collectDeleg(o, e, sc.Ops, c2)
	}
	if fmt.Sprint(a) != fmt.Sprint(b) {
		return fmt.Sprintf("fork.%s with a fork.%s morphism gives values %v errors %v closed=%v; pipe.%s with the pipe.%s morphism of the same function gives values %v errors %v closed=%v",
			sc.Stage[6:], sc.Mode, a.vals, a.errs, a.closed, sc.Stage[6:], sc.Mode, b.vals, b.errs, b.closed)
	}
	return ""
}

func TestC09Deleg(t *testing.T) {
	rapid.Check(t, func(rt *rapid.T) {
		sc := &Scenario{Prop: "C09", Stage: rapid.SampledFrom([]string{"deleg/takeWhile", "deleg/unfold", "deleg/emit"}).Draw(rt, "stage"),
			Mode: rapid.SampledFrom([]string{"pure", "lift", "try"}).Draw(rt, "mode"), Caps: []int{rapid.IntRange(0, 3).Draw(rt, "cap")},
			A: rapid.IntRange(1, 3).Draw(rt, "a"), B: rapid.IntRange(0, 5).Draw(rt, "b"), Seed: rapid.IntRange(0, 6).Draw(rt, "seed"),
			N: rapid.IntRange(0, 20).Draw(rt, "threshold"), Ops: rapid.IntRange(1, 8).Draw(rt, "take"),
			In:   [][]int{rapid.SliceOfN(rapid.IntRange(0, 20), 0, 12).Draw(rt, "in")},
			Fail: rapid.SliceOfNDistinct(rapid.IntRange(0, 30), 0, 8, rapid.ID[int]).Draw(rt, "fail")}
		msg := ""
		b := bubble.Run(t, func() { msg = runDeleg(sc) })
		if msg == "" {
			msg = b
		}
		vk.Record(sc, sc.Mode != "pure" && len(sc.Fail) > 0, "stage="+sc.Stage, "mode="+sc.Mode)
		if msg != "" {
			vk.Fail("C09", "TestC09Deleg", "", sc, msg)
			rt.Fatalf("%s", msg)
		}
	})
}

// ---- one morphism value handed to two stages, one after the other (C07): Lift/Try/LiftF/TryF (and the fork
// constructors) build a value the caller may keep; whatever happened in the first stage - a failure above all - the
// second stage behaves as documented for its own input.

func runReuse(sc *Scenario) string {
	fails := map[int]bool{}
	for _, x := range sc.Fail {
		fails[x] = true
	}
	calls := 0
	f := func(x int) (int, error) {
		calls++
		if fails[x] {
			return 0, fmt.Errorf("E%d", x)
		}
		return sc.A*x + sc.B, nil
	}
	arrow := func(ctx context.Context, x int, out chan<- int) error {
		calls++
		if fails[x] {
			return fmt.Errorf("E%d", x)
		}
		for _, y := range []int{sc.A*x + sc.B, x + 1000} {
			select {
			case out <- y:
			case <-ctx.Done():
				return nil
			}
		}
		return nil
	}
	failFast := sc.Mode == "lift" || sc.Mode == "liftf"
	expect := func(in []int) (vals []int, errs []string, nCalls int) {
		for _, x := range in {
			nCalls++
			if fails[x] {
				errs = append(errs, fmt.Sprintf("E%d", x))
				if failFast {
					return
				}
				continue
			}
			vals = append(vals, sc.A*x+sc.B)
			if sc.Stage == "reuse/fmap" || sc.Stage == "reuse/fork.fmap" {
				vals = append(vals, x+1000)
			}
		}
		return
	}
	var stage func(ctx context.Context, in <-chan int) (<-chan int, <-chan error)
	switch sc.Stage {
	case "reuse/map":
		m := pipe.Lift(f)
		if sc.Mode == "try" {
			m = pipe.Try(f)
		}
		stage = func(ctx context.Context, in <-chan int) (<-chan int, <-chan error) { return pipe.Map(ctx, in, m) }
	case "reuse/fmap":
		m := pipe.LiftF(arrow)
		if sc.Mode == "tryf" {
			m = pipe.TryF(arrow)
		}
		stage = func(ctx context.Context, in <-chan int) (<-chan int, <-chan error) { return pipe.FMap(ctx, in, m) }
	case "reuse/fork.map":
		m := fork.Lift(f)
		if sc.Mode == "try" {
			m = fork.Try(f)
		}
		stage = func(ctx context.Context, in <-chan int) (<-chan int, <-chan error) { return fork.Map(ctx, 1, in, m) }
	default:
		m := fork.LiftF(arrow)
		if sc.Mode == "tryf" {
			m = fork.TryF(arrow)
		}
		stage = func(ctx context.Context, in <-chan int) (<-chan int, <-chan error) { return fork.FMap(ctx, 1, in, m) }
	}
	for round, in := range sc.In {
		calls = 0
		ctx, cancel := context.WithCancel(context.Background())
		src := make(chan int)
		stop := make(chan struct{})
		go func() {
			defer close(src)
			for _, x := range in {
				select {
				case src <- x:
				case <-stop:
					return
				}
			}
		}()
		out, exx := stage(ctx, src)
		var errs []string
		errsDone := make(chan struct{})
		go func() {
			defer close(errsDone)
			for e := range exx {
				errs = append(errs, e.Error())
			}
		}()
		var vals []int
		for v := range out {
			vals = append(vals, v)
		}
		<-errsDone
		close(stop)
		cancel()
		synctest.Wait()
		wv, we, wc := expect(in)
		if fmt.Sprint(vals) != fmt.Sprint(wv) || fmt.Sprint(errs) != fmt.Sprint(we) || calls != wc {
			return fmt.Sprintf("%s with one %s morphism value used for %d stages in a row, stage %d over %v (failing %v): values %v errors %v calls %d, expected values %v errors %v calls %d",
				sc.Stage[6:], sc.Mode, len(sc.In), round+1, in, sc.Fail, vals, errs, calls, wv, we, wc)
		}
	}
	return ""
}

func TestC07Reuse(t *testing.T) {
	rapid.Check(t, func(rt *rapid.T) {
		stage := rapid.SampledFrom([]string{"reuse/map", "reuse/fmap", "reuse/fork.map", "reuse/fork.fmap"}).Draw(rt, "stage")
		mode := rapid.SampledFrom([]string{"lift", "try"}).Draw(rt, "mode")
		if stage == "reuse/fmap" || stage == "reuse/fork.fmap" {
			mode += "f"
		}
		sc := &Scenario{Prop: "C07", Stage: stage, Mode: mode, A: rapid.IntRange(1, 3).Draw(rt, "a"), B: rapid.IntRange(0, 5).Draw(rt, "b"),
			Fail: rapid.SliceOfNDistinct(rapid.IntRange(0, 9), 0, 5, rapid.ID[int]).Draw(rt, "fail")}
		for k := rapid.IntRange(2, 3).Draw(rt, "stages"); k > 0; k-- {
			sc.In = append(sc.In, rapid.SliceOfN(rapid.IntRange(0, 9), 0, 8).Draw(rt, "in"))
		}
		msg := ""
		b := bubble.Run(t, func() { msg = runReuse(sc) })
		if msg == "" {
			msg = b
		}
		failed := false
		for _, x := range sc.In[0] {
			for _, f := range sc.Fail {
				failed = failed || x == f
			}
		}
		vk.Record(sc, failed, "stage="+sc.Stage, "mode="+sc.Mode, "first-stage-failed="+strconv.FormatBool(failed))
		if msg != "" {
			vk.Fail("C07", "TestC07Reuse", "", sc, msg)
			rt.Fatalf("%s", msg)
		}
	})
}

// ---- pipe.New over a zero-size element type (struct{}): all values are equal and every &x is the same address, so
// only counts can be observed - every completed send is delivered, nothing is invented, then the receive side closes.

func runZeroSize(sc *Scenario) string {
	ctx, cancel := context.WithCancel(context.Background())
	defer cancel()
	rcv, snd := pipe.New[struct{}](ctx, sc.Caps0())
	sent, got := 0, 0
	closed := false
	recvOne := func() bool {
		select {
		case _, ok := <-rcv:
			if !ok {
				closed = true
				return false
			}
			got++
			return true
		default:
			return false
		}
	}
	for _, m := range sc.Script {
		switch m.K {
		case "burst":
			done := make(chan struct{})
			go func() {
				defer close(done)
				for k := 0; k < m.M; k++ {
					snd <- struct{}{}
				}
			}()
			synctest.Wait()
			select {
			case <-done:
				sent += m.M
			default:
				return fmt.Sprintf("pipe.New[struct{}](cap %d): a burst of %d sends has not returned at quiescence (%d sent before, %d received) - the sender waits for the receiver", sc.Caps0(), m.M, sent, got)
			}
		case "recv":
			synctest.Wait()
			recvOne()
		case "drain":
			for {
				synctest.Wait()
				if !recvOne() {
					break
				}
			}
		}
		if closed {
			return fmt.Sprintf("pipe.New[struct{}](cap %d): receive side closed although neither cancelled nor closed by the sender", sc.Caps0())
		}
		if got > sent {
			return fmt.Sprintf("pipe.New[struct{}](cap %d): %d values received, only %d sent", sc.Caps0(), got, sent)
		}
	}
	if sc.Mode == "close" {
		close(snd)
	} else {
		cancel()
	}
	for k := 0; k < 100000 && !closed; k++ {
		synctest.Wait()
		if !recvOne() && !closed {
			return fmt.Sprintf("pipe.New[struct{}](cap %d, end by %s): the receive side is empty but not closed; %d of %d completed sends delivered", sc.Caps0(), sc.Mode, got, sent)
		}
	}
	if got != sent {
		return fmt.Sprintf("pipe.New[struct{}](cap %d, end by %s): %d sends completed, %d values delivered before the receive side closed", sc.Caps0(), sc.Mode, sent, got)
	}
	return ""
}

func TestC08Zero(t *testing.T) {
	rapid.Check(t, func(rt *rapid.T) {
		sc := &Scenario{Prop: "C08", Stage: "unbound/zero-size", Caps: []int{rapid.IntRange(0, 4).Draw(rt, "cap")},
			Mode: rapid.SampledFrom([]string{"cancel", "close"}).Draw(rt, "end")}
		for k := rapid.IntRange(1, 12).Draw(rt, "len"); k > 0; k-- {
			m := Move{K: rapid.SampledFrom([]string{"burst", "burst", "recv", "recv", "drain"}).Draw(rt, "k")}
			if m.K == "burst" {
				m.M = rapid.IntRange(1, 9).Draw(rt, "m")
			}
			sc.Script = append(sc.Script, m)
		}
		msg := ""
		b := bubble.Run(t, func() { msg = runZeroSize(sc) })
		if msg == "" {
			msg = b
		}
		vk.Record(sc, len(sc.Script) >= 3, "stage=unbound/zero-size", "end="+sc.Mode)
		if msg != "" {
			vk.Fail("C08", "TestC08Zero", "", sc, msg)
			rt.Fatalf("%s", msg)
		}
	})
}

// ---- two stages of the same kind consume ONE input channel (plain Go fan-out).  Each element goes to exactly one of
// them; a stage must never act on a value it did not receive (e.g. because it trusted an earlier len(in)).  The user
// functions are gated, so the script decides which stage is inside its function while the other one - or the close of
// the input - empties the buffer.

type sharedStage struct {
	gate  chan struct{}
	calls []int
	out   <-chan int
	done  <-chan struct{}
	got   []int
}

func runShared(sc *Scenario) string {
	ctx, cancel := context.WithCancel(context.Background())
	defer cancel()
	in := make(chan int, sc.Caps0())
	open := make(chan struct{}) // closed at the end: all gates open
	mk := func() *sharedStage {
		s := &sharedStage{gate: make(chan struct{})}
		f := func(x int) int {
			s.calls = append(s.calls, x)
			select {
			case <-s.gate:
			case <-open:
			}
			return sc.A*x + sc.B
		}
		switch sc.Stage {
		case "shared/map":
			o, e := pipe.Map(ctx, in, pipe.Pure(f))
			s.out = pipe.StdErr(o, e)
		case "shared/filter":
			s.out = pipe.Filter(ctx, in, pipe.Pure(func(x int) bool { f(x); return x%2 == 1 }))
		case "shared/fork.foreach":
			s.done = fork.ForEach(ctx, 1, in, fork.Pure(f))
		default:
			s.done = pipe.ForEach(ctx, in, pipe.Pure(f))
		}
		return s
	}
	st := []*sharedStage{mk(), mk()}
	xs := sc.In[0]
	next := 0
	closed := false
	recv := func(s *sharedStage) {
		if s.out == nil {
			return
		}
		select {
		case v, ok := <-s.out:
			if ok {
				s.got = append(s.got, v)
			}
		default:
		}
	}
	synctest.Wait()
	for _, m := range sc.Script {
		switch m.K {
		case "send":
			if next < len(xs) && !closed {
				select {
				case in <- xs[next]:
					next++
				default:
				}
			}
		case "release":
			s := st[m.I%2]
			select {
			case s.gate <- struct{}{}:
			default:
			}
		case "recv":
			recv(st[m.I%2])
		case "close":
			if !closed {
				closed = true
				close(in)
			}
		}
		synctest.Wait()
	}
	if !closed {
		close(in)
	}
	close(open)
	for _, s := range st {
		if s.out != nil {
			for v := range s.out {
				s.got = append(s.got, v)
			}
		} else {
			<-s.done
		}
	}
	synctest.Wait()
	// every handed element was processed exactly once, by one of the two stages, and nothing else was
	want := map[int]int{}
	for _, x := range xs[:next] {
		want[x]++
	}
	have := map[int]int{}
	for _, s := range st {
		for _, x := range s.calls {
			have[x]++
		}
	}
	if fmt.Sprint(want) != fmt.Sprint(have) {
		return fmt.Sprintf("two %s stages on one input channel (cap %d), elements handed %v: stage A applied its function to %v, stage B to %v - together not exactly the elements handed", sc.Stage[7:], sc.Caps0(), xs[:next], st[0].calls, st[1].calls)
	}
	for k, s := range st {
		if s.out == nil {
			continue
		}
		var exp []int
		for _, x := range s.calls {
			if sc.Stage == "shared/filter" {
				if x%2 == 1 {
					exp = append(exp, x)
				}
			} else {
				exp = append(exp, sc.A*x+sc.B)
			}
		}
		if fmt.Sprint(exp) != fmt.Sprint(s.got) {
			return fmt.Sprintf("two %s stages on one input channel: stage %d received %v and delivered %v, expected %v", sc.Stage[7:], k, s.calls, s.got, exp)
		}
	}
	return ""
}

func TestC05Shared(t *testing.T) {
	rapid.Check(t, func(rt *rapid.T) {
		sc := &Scenario{Prop: "C05", Stage: rapid.SampledFrom([]string{"shared/foreach", "shared/map", "shared/filter", "shared/fork.foreach"}).Draw(rt, "stage"),
			Caps: []int{rapid.IntRange(0, 6).Draw(rt, "cap")}, A: rapid.IntRange(1, 3).Draw(rt, "a"), B: rapid.IntRange(1, 5).Draw(rt, "b"),
			In: [][]int{rapid.SliceOfN(rapid.IntRange(1, 30), 0, 12).Draw(rt, "in")}}
		for k := rapid.IntRange(0, 30).Draw(rt, "len"); k > 0; k-- {
			m := Move{K: rapid.SampledFrom([]string{"send", "send", "send", "release", "release", "recv", "close"}).Draw(rt, "k")}
			m.I = rapid.IntRange(0, 1).Draw(rt, "which")
			sc.Script = append(sc.Script, m)
		}
		msg := ""
		b := bubble.Run(t, func() { msg = runShared(sc) })
		if msg == "" {
			msg = b
		}
		vk.Record(sc, len(sc.In[0]) >= 3 && sc.Caps0() >= 1, "stage="+sc.Stage, "cap="+strconv.Itoa(min(sc.Caps0(), 3)))
		if msg != "" {
			vk.Fail("C05", "TestC05Shared", "", sc, msg)
			rt.Fatalf("%s", msg)
		}
	})
}
