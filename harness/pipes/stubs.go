package pipes

import "testing"

func ExecUnbound(t *testing.T, sc *Scenario) Result { return Result{} }
func ExecTimed(t *testing.T, sc *Scenario) Result   { return Result{} }
