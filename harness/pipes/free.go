package pipes

import (
	"context"
	"fmt"
	"runtime"
	"sync"
	"time"
)

// runFree executes a fork scenario free-running: real scheduler, no bubble, no gates.  It exists for the
// race detector and real parallelism (GOMAXPROCS is part of the scenario); termination is decided by the
// bubble tier, here a hang is only a timeout (reported as inconclusive by the driver).
func runFree(sc *Scenario, procs int) (msg string, timedOut bool) {
	prev := runtime.GOMAXPROCS(procs)
	defer runtime.GOMAXPROCS(prev)
	sc2 := *sc
	sc2.Gated = false
	e := &env{sc: &sc2, calls: map[int]int{}, errs: map[int]*stageErr{}, envStop: make(chan struct{}), start: time.Now()}
	var cancel context.CancelFunc
	e.ctx, cancel = context.WithCancel(context.Background())
	e.cancel = cancel
	defer cancel()
	post := build(e)
	input := sc.In[0]
	cancelAfter := -1
	if sc.N > 0 {
		cancelAfter = sc.N // cancel after this many deliveries
	}
	go func() {
		for _, x := range input[e.next[0]:] {
			select {
			case e.in[0] <- x:
				e.mu.Lock()
				e.accepted[0]++
				e.mu.Unlock()
			case <-e.envStop:
				return
			}
		}
		e.mu.Lock()
		e.closedIn[0], e.closedCh[0] = true, true
		e.mu.Unlock()
		close(e.in[0])
	}()
	var wg sync.WaitGroup
	var mu sync.Mutex
	total := 0
	for _, p := range e.ports {
		wg.Add(1)
		go func(p *port) {
			defer wg.Done()
			for {
				v, ok, closed := p.try()
				if closed {
					mu.Lock()
					p.closed = true
					mu.Unlock()
					return
				}
				if !ok {
					runtime.Gosched()
					select {
					case <-e.envStop:
						return
					default:
					}
					continue
				}
				mu.Lock()
				if !(p.isErr && v == -2) {
					p.delivered = append(p.delivered, v)
				}
				total++
				if cancelAfter >= 0 && total >= cancelAfter && !e.cancelled {
					e.cancelled = true
					cancel()
				}
				mu.Unlock()
			}
		}(p)
	}
	done := make(chan struct{})
	go func() { wg.Wait(); close(done) }()
	select {
	case <-done:
	case <-time.After(20 * time.Second):
		close(e.envStop)
		return fmt.Sprintf("free-running %s with %d workers did not close its outputs within 20s", sc.Stage, sc.Par), true
	}
	close(e.envStop)
	mu.Lock()
	defer mu.Unlock()
	for _, p := range e.ports {
		if m := p.validate(p, !e.cancelled); m != "" {
			return m, false
		}
	}
	if !e.cancelled && post != nil {
		if m := post(); m != "" {
			return m, false
		}
	}
	return "", false
}
