package pipes

import (
	"context"
	"fmt"
	"runtime"
	"sync"
	"time"
)

// runFree executes a fork scenario free-running: real scheduler, no bubble, no gates.  It exists for the
// race detector and real parallelism (GOMAXPROCS is part of the scenario); termination is decided by the
// bubble tier, here a hang is only a timeout (reported as inconclusive by the driver).
func runFree(sc *Scenario, procs int) (msg string, timedOut bool) {
	prev := runtime.GOMAXPROCS(procs)
	defer runtime.GOMAXPROCS(prev)
	sc2 := *sc
	sc2.Gated = false
	e := &env{sc: &sc2, calls: map[int]int{}, errs: map[int]*stageErr{}, envStop: make(chan struct{}), start: time.Now()}
	var cancel context.CancelFunc
	e.ctx, cancel = newCtx(sc)
	e.cancel = cancel
	defer cancel()
	post := build(e)
	input := sc.In[0]
	cancelAfter := -1
	if sc.N > 0 {
		cancelAfter = sc.N // cancel after this many deliveries
	}
	var wg sync.WaitGroup
	var mu sync.Mutex
	mu0 := &mu
	go func() {
		rest := input[e.next[0]:]
		for k, x := range rest {
			if sc.CancelAtEnd && k == len(rest)-1 {
				// let the workers park in their receive, then: cancel in a fresh goroutine, last element, close - back to back.
				// On one P the goroutine readied last runs first: a worker sees the end of the input while the context is
				// alive, then the cancel lands, then the worker holding the last element resumes.
				for i := 0; i < 20; i++ {
					runtime.Gosched()
				}
				time.Sleep(200 * time.Microsecond)
				mu0.Lock()
				e.cancelled = true
				mu0.Unlock()
				go cancel()
			}
			select {
			case e.in[0] <- x:
				e.mu.Lock()
				e.accepted[0]++
				e.mu.Unlock()
			case <-e.envStop:
				return
			}
		}
		e.mu.Lock()
		e.closedIn[0], e.closedCh[0] = true, true
		e.mu.Unlock()
		close(e.in[0])
	}()
	total := 0
	for _, p := range e.ports {
		wg.Add(1)
		go func(p *port) {
			defer wg.Done()
			for {
				v, ok, closed := p.try()
				if closed {
					mu.Lock()
					p.closed = true
					mu.Unlock()
					return
				}
				if !ok {
					runtime.Gosched()
					select {
					case <-e.envStop:
						return
					default:
					}
					continue
				}
				mu.Lock()
				if !(p.isErr && v == -2) {
					p.delivered = append(p.delivered, v)
				}
				total++
				if cancelAfter >= 0 && total >= cancelAfter && !e.cancelled {
					e.cancelled = true
					cancel()
				}
				mu.Unlock()
			}
		}(p)
	}
	done := make(chan struct{})
	go func() { wg.Wait(); close(done) }()
	select {
	case <-done:
	case <-time.After(20 * time.Second):
		close(e.envStop)
		return fmt.Sprintf("free-running %s with %d workers did not close its outputs within 20s", sc.Stage, sc.Par), true
	}
	close(e.envStop)
	mu.Lock()
	defer mu.Unlock()
	for _, p := range e.ports {
		if m := p.validate(p, !e.cancelled); m != "" {
			return m, false
		}
	}
	if !e.cancelled && post != nil {
		if m := post(); m != "" {
			return m, false
		}
	}
	return "", false
}
