package pipes

import (
	"context"
	"fmt"
	"sync"
	"testing"
	"testing/synctest"
	"time"

	"github.com/fogfish/golem/pipe/v2"
	"verif/harness/bubble"
)

// Timed scenarios (C11, C13) use goroutine actors that sleep on the bubble's virtual clock instead of
// a move script: a producer with an arrival pattern, a consumer with a receive pattern, a cancel time.
// Additional Scenario fields are carried in Script-free form:
//
//	Arrive  [[gap, burst], ...]   producer: sleep gap units, then send burst elements (blocking)
//	Consume [[gap, reads], ...]   consumer: sleep gap units, then receive `reads` values; afterwards always ready
//	CancelAt                       cancel at this time (units); 0: after the run completed (C13) / after N values (C11)
type Timing struct {
	Arrive   [][2]int `json:"arrive,omitempty"`
	Consume  [][2]int `json:"consume,omitempty"`
	CancelAt int      `json:"cancelAt,omitempty"`
	// StopAtCancel: the consumer gives up at the cancel (nobody receives afterwards)
	StopAtCancel bool `json:"stopAtCancel,omitempty"`
	// Slow: the step function takes Slow[i mod len] quarters of a tick (virtual time) for index / value i
	Slow []int `json:"slow,omitempty"`
	// Drain: the consumer never stops receiving (also beyond the values it waits for and after the cancel)
	Drain bool `json:"drain,omitempty"`
}

type stamped struct {
	v  int
	at time.Duration
}

// ExecTimed runs a C11 / C13 scenario in a fresh bubble.
func ExecTimed(t *testing.T, sc *Scenario) Result {
	var res Result
	b := bubble.Run(t, func() {
		if sc.Stage == "throttle" {
			res = runThrottle(sc)
		} else {
			res = runGenerator(sc)
		}
	})
	if res.Msg == "" && b != "" {
		res.Msg = "goroutine leak / deadlock: " + b
	}
	return res
}

func sleepUnits(sc *Scenario, n int) { time.Sleep(time.Duration(n) * sc.unit()) }

// startTwin starts an independent second instance of the timed stage on the same virtual clock (own context, own
// channels, the simplest environment: input always available, consumer always ready, no faults) and returns the
// function that waits for it and judges it with the exact oracles of that environment.  It uses actors only
// (no synctest.Wait), so it can run next to any main scenario.
func startTwin(sc *Scenario, envStop <-chan struct{}) func() string {
	if !sc.Twin {
		return func() string { return "" }
	}
	const K = 6
	start := time.Now()
	unit := sc.unit()
	ctx, cancel := context.WithCancel(context.Background())
	var got []stamped
	closed := false
	done := make(chan struct{})
	var period time.Duration
	var describe string
	var judge func() string
	collect := func(out <-chan int, n int) {
		for len(got) < n {
			select {
			case v, ok := <-out:
				if !ok {
					closed = true
					return
				}
				got = append(got, stamped{v, time.Since(start)})
			case <-envStop:
				return
			}
		}
	}
	vals := func() []int {
		r := make([]int, len(got))
		for i, g := range got {
			r[i] = g.v
		}
		return r
	}
	switch sc.Stage {
	case "throttle":
		ops := max(sc.Ops, 1)
		period = time.Duration(max(sc.Interval, 1)) * unit
		describe = fmt.Sprintf("twin Throttling(ops=%d, interval=%v) over 7 buffered elements, consumer always ready", ops, period)
		input := []int{500, 501, 502, 503, 504, 505, 506}
		in := make(chan int, len(input))
		for _, x := range input {
			in <- x
		}
		close(in)
		out := pipe.Throttling(ctx, in, ops, period)
		go func() {
			defer close(done)
			collect(out, len(input)+1)
		}()
		judge = func() string {
			if !equalInts(vals(), input) || !closed {
				return fmt.Sprintf("%s: delivered %v closed=%v, input %v", describe, vals(), closed, input)
			}
			for i, g := range got {
				lo := time.Duration(i/ops) * period
				if g.at < lo || g.at > lo+period {
					return fmt.Sprintf("%s: element %d delivered at %v, allowed [%v, %v]; delivery times %v", describe, i, g.at, lo, lo+period, times(got))
				}
			}
			return ""
		}
	default:
		period = time.Duration(max(sc.Freq, 1)) * unit
		var out <-chan int
		var exx <-chan error
		if sc.Stage == "emit" {
			describe = fmt.Sprintf("twin Emit(cap 0, freq=%v, f(i)=9000+i), consumer always ready", period)
			out, exx = pipe.Emit(ctx, 0, period, pipe.Pure(func(i int) int { return 9000 + i }))
		} else {
			describe = "twin Unfold(cap 0, seed 9000, +1), consumer always ready"
			out, exx = pipe.Unfold(ctx, 0, 9000, pipe.Pure(func(x int) int { return x + 1 }))
		}
		go func() {
			defer close(done)
			collect(out, K)
			cancel()
			// after its own cancel both channels must close (otherwise this goroutine stays blocked and the bubble reports it)
			for range out {
			}
			for range exx {
			}
			closed = true
		}()
		judge = func() string {
			want := []int{9000, 9001, 9002, 9003, 9004, 9005}
			if !equalInts(vals(), want) {
				return fmt.Sprintf("%s: delivered %v, want %v", describe, vals(), want)
			}
			if sc.Stage == "emit" {
				for j := 1; j < len(got); j++ {
					if d := got[j].at - got[j-1].at; d != period {
						return fmt.Sprintf("%s: values %d and %d received %v apart; receive times %v", describe, j-1, j, d, times(got))
					}
				}
			}
			return ""
		}
	}
	return func() string {
		select {
		case <-done:
		default:
			// not finished yet: give it 40 periods from now (a correct twin needs at most 8)
			select {
			case <-done:
			case <-time.After(40 * period):
				select {
				case <-done: // both were ready
				default:
					cancel()
					return fmt.Sprintf("%s: not finished after 40 more periods of virtual time", describe)
				}
			}
		}
		cancel()
		return judge()
	}
}

func equalInts(a, b []int) bool {
	if len(a) != len(b) {
		return false
	}
	for i := range a {
		if a[i] != b[i] {
			return false
		}
	}
	return true
}

// ---------------------------------------------------------------------------------------------- C13

func runThrottle(sc *Scenario) (res Result) {
	start := time.Now()
	unit := sc.unit()
	ctx, cancel := context.WithCancel(context.Background())
	if sc.Deadline && sc.T.CancelAt > 0 && !sc.PreCancel {
		// a real deadline context: it expires by itself at the scenario's cancel time (virtual clock) and reports its deadline
		ctx, cancel = context.WithDeadline(context.Background(), start.Add(time.Duration(sc.T.CancelAt)*unit))
	}
	defer cancel()
	ops := max(sc.Ops, 1)
	interval := time.Duration(max(sc.Interval, 1)) * unit
	c := sc.Caps0()
	input := sc.In[0]
	in := make(chan int, c)
	if sc.PreCancel {
		cancel()
	}
	out := pipe.Throttling(ctx, in, ops, interval)
	envStop := make(chan struct{})
	twin := startTwin(sc, envStop)

	var mu sync.Mutex
	var got []stamped
	closedSeen := false
	var inClosedAt, outClosedAt time.Duration = -1, -1
	var cancelledAt time.Duration = -1
	if sc.PreCancel {
		cancelledAt = 0
	}

	// producer
	go func() {
		k := 0
		for _, a := range sc.T.Arrive {
			if a[0] > 0 {
				select {
				case <-time.After(time.Duration(a[0]) * unit):
				case <-envStop:
					return
				}
			}
			for j := 0; j < a[1] && k < len(input); j++ {
				select {
				case in <- input[k]:
					k++
				case <-envStop:
					return
				}
			}
		}
		for k < len(input) {
			select {
			case in <- input[k]:
				k++
			case <-envStop:
				return
			}
		}
		mu.Lock()
		inClosedAt = time.Since(start)
		mu.Unlock()
		close(in)
	}()

	// consumer
	done := make(chan struct{})
	go func() {
		defer close(done)
		recv := func() bool {
			select {
			case v, ok := <-out:
				mu.Lock()
				defer mu.Unlock()
				if !ok {
					closedSeen = true
					outClosedAt = time.Since(start)
					return false
				}
				got = append(got, stamped{v, time.Since(start)})
				return true
			case <-envStop:
				return false
			}
		}
		for _, cp := range sc.T.Consume {
			if cp[0] > 0 {
				select {
				case <-time.After(time.Duration(cp[0]) * unit):
				case <-envStop:
					return
				}
			}
			for j := 0; j < cp[1]; j++ {
				if !recv() {
					return
				}
			}
		}
		for recv() {
		}
	}()

	// an upper bound on the virtual time a correct stage needs: all gaps + one interval per ops elements, doubled
	budget := 0
	for _, a := range sc.T.Arrive {
		budget += a[0]
	}
	for _, cp := range sc.T.Consume {
		budget += cp[0]
	}
	budget += (len(input)/ops + 3) * max(sc.Interval, 1)
	limit := time.Duration(2*budget+10) * unit

	if sc.T.CancelAt > 0 && !sc.PreCancel {
		select {
		case <-done:
		case <-time.After(time.Duration(sc.T.CancelAt) * unit):
			mu.Lock()
			cancelledAt = time.Since(start)
			mu.Unlock()
			cancel()
		}
		if ctx.Err() != nil && cancelledAt < 0 {
			// a deadline context expired by itself at the same instant and the consumer's end was seen first
			mu.Lock()
			cancelledAt = time.Duration(sc.T.CancelAt) * unit
			mu.Unlock()
		}
	}
	timedOut := false
	select {
	case <-done:
	case <-time.After(limit):
		timedOut = true
	}
	mu.Lock()
	g := append([]stamped{}, got...)
	closed := closedSeen
	mu.Unlock()
	finish := func() {
		cancel()
		close(envStop)
		synctest.Wait()
		time.Sleep(10 * interval)
	}
	vals := make([]int, len(g))
	for i, s := range g {
		vals[i] = s.v
	}
	if msg := twin(); msg != "" {
		finish()
		res.Msg = msg
		return
	}
	if !isPrefix(vals, input) {
		finish()
		res.Msg = fmt.Sprintf("throttling: delivered %v, input is %v (lost, duplicated or reordered)", vals, input)
		return
	}
	if timedOut {
		finish()
		res.Msg = fmt.Sprintf("throttling: after %v of virtual time (twice what the arrival pattern, the consumer pattern and one interval per %d elements add up to) only %d of %d elements were delivered and the output is not closed", limit, ops, len(g), len(input))
		return
	}
	if cancelledAt < 0 {
		if !closed || len(vals) != len(input) {
			finish()
			res.Msg = fmt.Sprintf("throttling: output closed=%v after delivering %v of %v", closed, vals, input)
			return
		}
		// "closes when the input closes": once the input is closed and the last element delivered nothing else has to
		// happen first (no further credit, no further tick) - with a consumer that was ready at that moment
		mu.Lock()
		due := inClosedAt
		if len(g) > 0 && g[len(g)-1].at > due {
			due = g[len(g)-1].at
		}
		late := len(sc.T.Consume) == 0 && outClosedAt > due
		at := outClosedAt
		mu.Unlock()
		if late {
			finish()
			res.Msg = fmt.Sprintf("throttling(ops=%d, interval=%v): the input was closed at %v and the last element delivered at %v, but the output closed only at %v (consumer always ready)", ops, interval, inClosedAt, due, at)
			return
		}
	}
	// rate bound: no half-open window [t_i, t_i+interval) before the cancel holds more than 2*ops+1+c deliveries
	bound := 2*ops + 1 + c
	for i := range g {
		if cancelledAt >= 0 && g[i].at >= cancelledAt {
			break
		}
		n := 0
		for j := i; j < len(g) && g[j].at < g[i].at+interval; j++ {
			if cancelledAt >= 0 && g[j].at >= cancelledAt {
				break
			}
			n++
		}
		if n > bound {
			finish()
			res.Msg = fmt.Sprintf("throttling(ops=%d, interval=%v, c=%d): %d deliveries inside the window [%v, %v), the bound is 2*ops+1+c = %d; delivery times %v", ops, interval, c, n, g[i].at, g[i].at+interval, bound, times(g))
			return
		}
	}
	if sc.saturated() && cancelledAt < 0 {
		for i := range g {
			lo := time.Duration(i/ops) * interval
			if g[i].at < lo || g[i].at > lo+interval {
				finish()
				res.Msg = fmt.Sprintf("throttling(ops=%d, interval=%v, c=%d) saturated: element %d delivered at %v, allowed [%v, %v]; delivery times %v", ops, interval, c, i, g[i].at, lo, lo+interval, times(g))
				return
			}
		}
	}
	res.Received = len(g)
	finish()
	return
}

func times(g []stamped) []time.Duration {
	out := make([]time.Duration, len(g))
	for i, s := range g {
		out[i] = s.at
	}
	return out
}

// saturated: input always available (no arrival gaps) and the consumer always ready (no consumer pattern)
func (sc *Scenario) saturated() bool {
	for _, a := range sc.T.Arrive {
		if a[0] > 0 {
			return false
		}
	}
	return len(sc.T.Consume) == 0
}

// ---------------------------------------------------------------------------------------------- C11

func runGenerator(sc *Scenario) (res Result) {
	e := &env{sc: sc, calls: map[int]int{}, errs: map[int]*stageErr{}, envStop: make(chan struct{}), start: time.Now()}
	e.ctx, e.cancel = context.WithCancel(context.Background())
	unit := sc.unit()
	if sc.Deadline && sc.T.CancelAt > 0 && !sc.PreCancel {
		e.ctx, e.cancel = context.WithDeadline(context.Background(), e.start.Add(time.Duration(sc.T.CancelAt)*unit))
	}
	freq := time.Duration(max(sc.Freq, 1)) * unit
	if len(sc.T.Slow) > 0 {
		e.slow = func(i int) time.Duration {
			return freq * time.Duration(sc.T.Slow[((i%len(sc.T.Slow))+len(sc.T.Slow))%len(sc.T.Slow)]) / 4
		}
	}
	if sc.PreCancel {
		// the stage is created on an already cancelled context: whatever it still delivers is a prefix, and both channels close
		e.cancelled = true
		e.cancel()
	}
	var out <-chan int
	var exx <-chan error
	if sc.Stage == "emit" {
		out, exx = pipe.Emit(e.ctx, sc.Caps0(), freq, liftF(e, sc.emitf))
	} else {
		out, exx = pipe.Unfold(e.ctx, sc.Caps0(), sc.Seed, liftF(e, sc.step))
	}
	twin := startTwin(sc, e.envStop)
	var mu sync.Mutex
	var got, gotErr []stamped
	outClosed, errClosed := false, false

	// error consumer: always ready
	errDone := make(chan struct{})
	go func() {
		defer close(errDone)
		for {
			select {
			case err, ok := <-exx:
				mu.Lock()
				if !ok {
					errClosed = true
					mu.Unlock()
					return
				}
				gotErr = append(gotErr, stamped{e.decodeErr(err), time.Since(e.start)})
				mu.Unlock()
			case <-e.envStop:
				return
			}
		}
	}()
	done := make(chan struct{})
	giveUp := make(chan struct{})
	want := max(sc.N, 1)
	go func() {
		doneClosed := false
		markDone := func() {
			if !doneClosed {
				doneClosed = true
				close(done)
			}
		}
		defer markDone()
		n := 0
		recv := func() bool {
			select {
			case <-giveUp:
				return false
			default:
			}
			select {
			case <-giveUp:
				return false
			case v, ok := <-out:
				mu.Lock()
				defer mu.Unlock()
				if !ok {
					outClosed = true
					return false
				}
				got = append(got, stamped{v, time.Since(e.start)})
				n++
				return true
			case <-e.envStop:
				return false
			}
		}
		for _, cp := range sc.T.Consume {
			if cp[0] > 0 {
				select {
				case <-time.After(time.Duration(cp[0]) * unit):
				case <-giveUp:
					return
				case <-e.envStop:
					return
				}
			}
			for j := 0; j < cp[1]; j++ {
				if !recv() {
					return
				}
			}
		}
		for n < want {
			if !recv() {
				return
			}
		}
		markDone()
		if sc.T.Drain {
			// a consumer that never stops: whatever arrives is taken at once, also after the cancel, until the channel closes
			for recv() {
			}
		}
	}()

	budget := want + len(sc.Fail) + 4
	for _, cp := range sc.T.Consume {
		budget += cp[0] + cp[1]
	}
	limit := time.Duration(2*budget*max(sc.Freq, 1)+10) * unit
	cancelled := sc.PreCancel
	if sc.T.CancelAt > 0 && !sc.PreCancel {
		select {
		case <-done:
		case <-time.After(time.Duration(sc.T.CancelAt) * unit):
		}
		cancelled = true
		e.cancelled = true
		if sc.T.StopAtCancel {
			close(giveUp)
		}
		e.cancel()
	}
	timedOut := false
	select {
	case <-done:
	case <-time.After(limit):
		timedOut = true
	}
	finish := func() {
		e.cancelled = true
		e.cancel()
		synctest.Wait()
		// after a cancel Emit may still win the send arm while its buffer has room (a ready select arm is picked at
		// random); once the buffer is full only the cancel arm is left: capacity + a margin of ticks is a sound horizon
		// (both the value and the error channel have `capacity` slots, a call may take up to 3/4 of a tick: 4*capacity+32 ticks)
		time.Sleep(time.Duration(4*sc.Caps0()+32) * freq)
		synctest.Wait()
	}
	check := func() string {
		mu.Lock()
		defer mu.Unlock()
		e.mu.Lock()
		defer e.mu.Unlock()
		vals := make([]int, len(got))
		for i, s := range got {
			vals[i] = s.v
		}
		errs := make([]int, 0, len(gotErr))
		for _, s := range gotErr {
			if s.v != -2 {
				errs = append(errs, s.v)
			}
		}
		// expected streams
		var expV, expE []int
		lift := sc.Mode == "lift"
		ended := false
		if sc.Stage == "emit" {
			for i := 0; i < len(vals)+len(errs)+len(sc.Fail)+sc.Caps0()+8 && !ended; i++ {
				if sc.Mode != "pure" && e.failsNoLock(i) {
					expE = append(expE, i)
					ended = lift
					continue
				}
				expV = append(expV, sc.emitf(i))
			}
		} else {
			x := sc.Seed
			for i := 0; i < len(vals)+sc.Caps0()+8 && !ended; i++ {
				expV = append(expV, x)
				if lift && e.failsNoLock(x) {
					expE = append(expE, x)
					ended = true
				}
				x = sc.step(x)
			}
		}
		if !isPrefix(vals, expV) {
			return fmt.Sprintf("%s: delivered %v, the successive sequence is %v (gap, repeat or reordering)", sc.Stage, vals, expV)
		}
		if !isPrefix(errs, expE) {
			return fmt.Sprintf("%s: errors %v, expected %v", sc.Stage, errs, expE)
		}
		if timedOut {
			return fmt.Sprintf("%s: after %v of virtual time the consumer has %d of the %d values it waits for; the stage stopped producing although the context is not cancelled", sc.Stage, limit, len(vals), want)
		}
		if !cancelled && (outClosed || errClosed) && !(lift && ended) {
			return fmt.Sprintf("%s: channel closed (out=%v err=%v) although the context was not cancelled and nothing failed; delivered %v", sc.Stage, outClosed, errClosed, vals)
		}
		if !cancelled && outClosed && len(vals) != len(expV) {
			return fmt.Sprintf("%s: fail-fast closed the output after %v, expected %v", sc.Stage, vals, expV)
		}
		if !cancelled && errClosed && len(errs) != len(expE) {
			return fmt.Sprintf("%s: fail-fast closed the error channel after %v, expected %v", sc.Stage, errs, expE)
		}
		if sc.Stage == "emit" {
			// pacing on the virtual clock: f is called at most once per tick, so call i cannot happen before i ticks,
			// and the j-th value (0-based) cannot be received before j ticks
			for i := 1; i < len(e.callAt); i++ {
				if e.callAt[i]-e.callAt[i-1] < freq {
					return fmt.Sprintf("emit(freq=%v): f(%d) called at %v and f(%d) at %v: two calls within one tick", freq, e.callLog[i-1], e.callAt[i-1], e.callLog[i], e.callAt[i])
				}
			}
			for i, at := range e.callAt {
				if at < time.Duration(i)*freq {
					return fmt.Sprintf("emit(freq=%v): call number %d happened at %v, before %d ticks elapsed", freq, i, at, i)
				}
			}
			for j, s := range got {
				if s.at < time.Duration(j)*freq {
					return fmt.Sprintf("emit(freq=%v): value number %d received at %v, before %d ticks elapsed; receive times %v", freq, j, s.at, j, times(got))
				}
			}
			for i, v := range e.callLog {
				if v != i {
					return fmt.Sprintf("emit: f was called with %v, want 0,1,2,... each once", e.callLog)
				}
			}
			if len(sc.T.Consume) == 0 && len(sc.Fail) == 0 && len(sc.T.Slow) == 0 {
				// a consumer that keeps up receives one value per tick
				for j := 1; j < len(got); j++ {
					if cancelled && got[j].at > time.Duration(sc.T.CancelAt)*unit {
						break
					}
					if d := got[j].at - got[j-1].at; d != freq {
						return fmt.Sprintf("emit(freq=%v): always-ready consumer received values %d and %d %v apart; receive times %v", freq, j-1, j, d, times(got))
					}
				}
			}
		}
		return ""
	}
	msg := check()
	if msg == "" {
		msg = twin()
	}
	if msg != "" {
		finish()
		close(e.envStop)
		res.Msg = msg
		return
	}
	// cancel: both channels must close and every goroutine must exit.  The values are not received any more; the errors
	// keep being read during the horizon (a stage whose only cancel check sits behind a successful error hand-over would
	// go on for ever), then nobody reads anything
	// (try-and-continue stages whose consumer did not walk away; for the others the error reader stops first, so that a
	// stage parked on an error nobody takes must be freed by the cancel alone)
	keepErrReader := (sc.Mode == "try" || sc.T.Drain) && !sc.T.StopAtCancel
	if keepErrReader {
		finish()
	}
	mu.Lock()
	stillOpen := keepErrReader && (!errClosed || sc.T.Drain && !outClosed)
	mu.Unlock()
	if stillOpen {
		close(e.envStop)
		res.Msg = fmt.Sprintf("%s: %d periods after the cancel the channels are still open (values closed: %v, errors closed: %v) although everything the stage sent was being received at once (the stage goes on after the cancel)", sc.Stage, 4*sc.Caps0()+32, outClosed, errClosed)
		synctest.Wait()
		finish()
		return
	}
	close(e.envStop)
	synctest.Wait()
	finish()
	for _, p := range []*port{intPort("out", out), e.errPort("err", exx)} {
		for k := 0; k < 100000 && !p.closed; k++ {
			v, ok, closed := p.try()
			_ = v
			if closed {
				p.closed = true
			} else if !ok {
				break
			}
		}
		if !p.closed {
			res.Msg = fmt.Sprintf("%s: after cancel %q is empty but still open", sc.Stage, p.name)
			return
		}
	}
	res.Received = len(got)
	return
}

func (e *env) failsNoLock(v int) bool {
	for _, f := range e.sc.Fail {
		if f == v {
			return true
		}
	}
	return false
}
