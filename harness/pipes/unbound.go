package pipes

import (
	"context"
	"fmt"
	"sync"
	"testing"
	"testing/synctest"
	"time"

	"github.com/fogfish/golem/pipe/v2"
	"verif/harness/bubble"
)

// C08 scenarios reuse Scenario: Caps[0] is the capacity of pipe.New, Script the moves
//
//	send   start one blocking send (values are 1,2,3,... in send order, all sent by one chained producer)
//	burst  M sends
//	recv   one try-receive          drain  receive until nothing is available at quiescence
//	cancel cancel the context       close  the sender closes the send side
//	batch  sub-moves without an intervening quiescence (sends racing a cancel)
//
// End ("cancel" | "close") says how the harness ends the stream if the script did not.
func ExecUnbound(t *testing.T, sc *Scenario) Result {
	var res Result
	b := bubble.Run(t, func() { res = runUnbound(sc) })
	if res.Msg == "" && b != "" {
		res.Msg = "goroutine leak / deadlock: " + b
	}
	return res
}

type unb struct {
	sc         *Scenario
	rcv        <-chan int
	snd        chan<- int
	cancel     context.CancelFunc
	envStop    chan struct{}
	stopOnce   sync.Once
	mu         sync.Mutex
	completed  int // sends that returned normally
	started    int
	lastDone   chan struct{}
	got        []int
	closed     bool
	cancelled  bool
	sndClosed  bool
	maxBacklog int
	parStarted map[int]bool // values handed to independent one-shot senders
	parDone    map[int]bool // ... whose send completed
	parBack    int          // ... whose goroutine has returned (send completed, gave up, or panicked on the closed channel)
	parSeen    map[int]bool
	chainGot   int
	refills    int
}

func (u *unb) send(n int) {
	if u.sndClosed || u.cancelled && !u.sc.CancelAtEnd {
		// no send is started after the sender closed; after a cancel only in the scenarios that say so (the library
		// closes the send side on cancel: such a send panics in the sender, completes - and then must be delivered -
		// or, if the stage never started its pump, would wait for ever)
		return
	}
	prev := u.lastDone
	done := make(chan struct{})
	u.lastDone = done
	first := u.started + 1
	u.started += n
	go func() {
		defer close(done)
		defer func() { recover() }() // send on a channel the library closed on cancel: allowed outcome of a racing send
		if prev != nil {
			select {
			case <-prev:
			case <-u.envStop:
				return
			}
		}
		for v := first; v < first+n; v++ {
			u.mu.Lock()
			ok := u.completed == v-1 // an earlier send did not complete: keep the values a prefix
			u.mu.Unlock()
			if !ok {
				return
			}
			select {
			case u.snd <- v:
				u.mu.Lock()
				u.completed = v
				u.mu.Unlock()
			case <-u.envStop:
				return
			}
		}
	}()
}

func (u *unb) allDone() bool {
	if u.lastDone == nil {
		return true
	}
	select {
	case <-u.lastDone:
		return true
	default:
		return false
	}
}

func (u *unb) recv() (bool, string) {
	if u.closed {
		return false, ""
	}
	select {
	case v, ok := <-u.rcv:
		if !ok {
			u.closed = true
			if !u.cancelled && !u.sndClosed {
				return true, fmt.Sprintf("receive side closed although the context is not cancelled and the sender did not close (received %v)", u.got)
			}
			return true, ""
		}
		u.got = append(u.got, v)
		if v >= parBase {
			if !u.parStarted[v] || u.parSeen[v] {
				return true, fmt.Sprintf("received %v: %d was never sent or is delivered twice", u.got, v)
			}
			u.parSeen[v] = true
			return true, ""
		}
		u.chainGot++
		if v != u.chainGot {
			return true, fmt.Sprintf("received %v: the values of the sequential sender must arrive as 1,2,3,... (lost, duplicated, reordered or invented value)", u.got)
		}
		u.mu.Lock()
		c := u.completed
		u.mu.Unlock()
		_ = c
		return true, ""
	default:
		return false, ""
	}
}

func (u *unb) do(m Move) string {
	switch m.K {
	case "send":
		u.send(1)
	case "burst":
		u.send(max(m.M, 1))
	case "par":
		// M independent senders, one value each: several goroutines can be parked on the send side at once
		if u.sndClosed || u.cancelled && !u.sc.CancelAtEnd {
			return ""
		}
		for k := 0; k < max(m.M, 1); k++ {
			v := parBase + len(u.parStarted)
			u.parStarted[v] = true
			go func() {
				defer func() {
					recover()
					u.mu.Lock()
					u.parBack++
					u.mu.Unlock()
				}()
				select {
				case u.snd <- v:
					u.mu.Lock()
					u.parDone[v] = true
					u.mu.Unlock()
				case <-u.envStop:
				}
			}()
		}
	case "recv":
		_, msg := u.recv()
		return msg
	case "drain":
		for k := 0; k < 100000; k++ {
			prog, msg := u.recv()
			if msg != "" {
				return msg
			}
			if u.closed {
				return ""
			}
			if !prog {
				synctest.Wait()
				prog, msg = u.recv()
				if msg != "" {
					return msg
				}
				if !prog {
					return ""
				}
			}
		}
	case "wait":
		time.Sleep(time.Duration(max(m.M, 1)) * time.Second)
	case "cancel":
		u.cancelled = true
		u.cancel()
	case "close":
		if !u.sndClosed && !u.cancelled && u.allDone() {
			u.sndClosed = true
			close(u.snd)
		}
	case "dclose":
		// the sender itself (no helper goroutine, no yield): up to M sends that complete into the send buffer, then close.
		// Followed by a cancel in the same batch the pump wakes up with a closed, non-empty send buffer and a done context.
		u.mu.Lock()
		pending := len(u.parStarted) - len(u.parDone)
		u.mu.Unlock()
		if u.sndClosed || u.cancelled || !u.allDone() || pending > 0 {
			return ""
		}
	direct:
		for k := 0; k < max(m.M, 1); k++ {
			v := u.started + 1
			select {
			case u.snd <- v:
				u.started = v
				u.mu.Lock()
				u.completed = v
				u.mu.Unlock()
			default:
				break direct
			}
		}
		u.sndClosed = true
		close(u.snd)
	case "batch":
		for _, s := range m.Sub {
			if s.K == "batch" {
				continue
			}
			if s.K == "close" {
				continue // a close racing pending sends would be a sender-side error, not generated
			}
			if msg := u.do(s); msg != "" {
				return msg
			}
		}
	}
	return ""
}

func runUnbound(sc *Scenario) (res Result) {
	ctx, cancel := newCtx(sc)
	u := &unb{sc: sc, cancel: cancel, envStop: make(chan struct{}), parStarted: map[int]bool{}, parDone: map[int]bool{}, parSeen: map[int]bool{}}
	if sc.Gated {
		warmUp(sc.Caps0())
	}
	if sc.PreCancel {
		u.cancelled = true
		cancel()
	}
	u.rcv, u.snd = pipe.New[int](ctx, sc.Caps0())
	fail := func(m string) Result {
		res.Msg = m
		cancel()
		u.stopOnce.Do(func() { close(u.envStop) })
		synctest.Wait()
		// let the pump flush so that the bubble can end
		for k := 0; k < 100000; k++ {
			select {
			case _, ok := <-u.rcv:
				if !ok {
					return res
				}
			default:
				synctest.Wait()
				select {
				case _, ok := <-u.rcv:
					if !ok {
						return res
					}
				default:
					return res
				}
			}
		}
		return res
	}
	// Twin: a second pipe of the same element type is alive for the whole scenario (own context, own values);
	// it must behave as if it were alone, and so must the pipe under test.
	var twinRcv <-chan int
	var twinSnd chan<- int
	twinCtx, twinCancel := context.WithCancel(context.Background())
	defer func() {
		// whatever happened, let the twin's pump flush so that the bubble can end
		twinCancel()
		u.stopOnce.Do(func() { close(u.envStop) })
		for k := 0; twinRcv != nil && k < 1000; k++ {
			synctest.Wait()
			select {
			case _, ok := <-twinRcv:
				if !ok {
					return
				}
			default:
				return
			}
		}
	}()
	const twinBase, twinN = 7000, 5
	twinSent := make(chan struct{})
	if sc.Twin {
		twinRcv, twinSnd = pipe.New[int](twinCtx, sc.Caps0())
		go func() {
			defer close(twinSent)
			for v := 1; v <= twinN; v++ {
				select {
				case twinSnd <- twinBase + v:
				case <-u.envStop:
					return
				}
			}
		}()
	}
	twinCheck := func() string {
		if !sc.Twin {
			return ""
		}
		select {
		case <-twinSent:
		default:
			return "twin pipe (own context, never touched by the script): its five sends have not all returned at quiescence"
		}
		if sc.Mode == "close" {
			twinCancel() // the other way of ending than the pipe under test
		} else {
			close(twinSnd)
		}
		var got []int
		for k := 0; k < 1000; k++ {
			synctest.Wait()
			select {
			case v, ok := <-twinRcv:
				if !ok {
					if len(got) != twinN {
						return fmt.Sprintf("twin pipe (own context): delivered %v and closed, sent %d..%d", got, twinBase+1, twinBase+twinN)
					}
					return ""
				}
				got = append(got, v)
				if v != twinBase+len(got) {
					return fmt.Sprintf("twin pipe (own context): delivered %v, sent %d..%d in order", got, twinBase+1, twinBase+twinN)
				}
			default:
				return fmt.Sprintf("twin pipe (own context): after the end of its stream the receive side is empty but not closed; delivered %v", got)
			}
		}
		return "twin pipe: endless stream"
	}
	synctest.Wait()
	for _, m := range sc.Script {
		wasCancelled := u.cancelled
		if msg := u.do(m); msg != "" {
			return fail(msg)
		}
		synctest.Wait()
		u.mu.Lock()
		completed := u.completed
		u.mu.Unlock()
		u.mu.Lock()
		completed += len(u.parDone)
		pending := len(u.parStarted) - len(u.parDone)
		u.mu.Unlock()
		backlog := completed - len(u.got)
		if backlog > u.maxBacklog {
			u.maxBacklog = backlog
		}
		if backlog == 0 && completed > 0 {
			u.refills++
		}
		// a send never waits for the receiver: at quiescence every started send has returned (after a cancel: completed,
		// or ended by the panic of a send on the closed channel)
		u.mu.Lock()
		parOut := len(u.parStarted) - u.parBack
		u.mu.Unlock()
		if (wasCancelled || u.cancelled) && sc.CancelAtEnd && (!u.allDone() || parOut > 0) {
			return fail(fmt.Sprintf("a send started after the cancel is still blocked at quiescence (cap=%d, created on a cancelled context: %v): %d sends started, %d completed", sc.Caps0(), sc.PreCancel, u.started+len(u.parStarted), completed))
		}
		if !wasCancelled && !u.cancelled && (!u.allDone() || pending > 0) {
			return fail(fmt.Sprintf("a send is still blocked at quiescence: %d sends started, %d completed, %d received - the sender waits for the receiver", u.started, completed, len(u.got)))
		}
	}
	// end of stream
	if !u.cancelled && !u.sndClosed {
		if !u.allDone() {
			return fail("a send is still blocked at quiescence before the end of the stream")
		}
		if sc.Mode == "close" || sc.Mode == "close-cancel" {
			u.sndClosed = true
			close(u.snd)
			if sc.Mode == "close-cancel" {
				// the pump has seen the close (and may be blocked delivering the backlog) when the context is cancelled
				synctest.Wait()
				u.cancelled = true
				cancel()
			}
		} else {
			u.cancelled = true
			cancel()
		}
	}
	synctest.Wait()
	u.stopOnce.Do(func() { close(u.envStop) }) // pending racing sends give up
	synctest.Wait()
	if msg := u.do(Move{K: "drain"}); msg != "" {
		return fail(msg)
	}
	u.mu.Lock()
	completed := u.completed
	u.mu.Unlock()
	if !u.closed {
		return fail(fmt.Sprintf("after %s and a full drain the receive side is empty but not closed (received %d of %d completed sends)", map[bool]string{true: "close by the sender", false: "cancel"}[u.sndClosed], len(u.got), completed))
	}
	u.mu.Lock()
	for v := range u.parDone {
		if !u.parSeen[v] {
			u.mu.Unlock()
			return fail(fmt.Sprintf("the send of %d (one of %d independent senders) completed but the value was never delivered before the receive side closed (cap=%d, cancelled=%v); received %v", v, len(u.parStarted), sc.Caps0(), u.cancelled, u.got))
		}
	}
	completed += len(u.parDone)
	u.mu.Unlock()
	if len(u.got) != completed {
		return fail(fmt.Sprintf("%d sends completed but only %v were delivered before the receive side closed (cap=%d, cancelled=%v, closed by sender=%v)", completed, u.got, sc.Caps0(), u.cancelled, u.sndClosed))
	}
	if msg := twinCheck(); msg != "" {
		return fail(msg)
	}
	res.Received = len(u.got)
	res.Backpressure = u.maxBacklog >= 2
	res.CancelBlocked = u.refills >= 2
	cancel()
	return res
}

const parBase = 100000

// warmUp runs a pipe of ANOTHER element type through a few values and shuts it down, so that state shared
// between instantiations of the generic queue (a common node pool, say) would be left behind for the pipe under test.
func warmUp(capacity int) {
	ctx, cancel := context.WithCancel(context.Background())
	rcv, snd := pipe.New[string](ctx, capacity)
	done := make(chan struct{})
	go func() {
		defer close(done)
		for _, s := range []string{"a", "b", "c"} {
			snd <- s
		}
	}()
	for i := 0; i < 3; i++ {
		<-rcv
	}
	<-done
	cancel()
	for range rcv {
	}
}
