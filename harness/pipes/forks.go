package pipes

import (
	"context"
	"fmt"
	"math"
	"sort"

	"github.com/fogfish/golem/pipe/v2"
	"github.com/fogfish/golem/pipe/v2/fork"
	"github.com/fogfish/golem/pure/monoid"
)

// ---- engine E4: fork stages with gated user calls

func multiset(xs []int) map[int]int {
	m := map[int]int{}
	for _, x := range xs {
		m[x]++
	}
	return m
}

func sorted(xs []int) []int {
	out := append([]int{}, xs...)
	sort.Ints(out)
	return out
}

// multisetValidator: delivered is a sub-multiset of want at any time, equal to it when the port closes uncancelled.
func (e *env) multisetValidator(what string, want []int, exact bool) func(p *port, final bool) string {
	wm := multiset(want)
	return func(p *port, final bool) string {
		dm := multiset(p.delivered)
		for v, n := range dm {
			if n > wm[v] {
				return fmt.Sprintf("%s: delivered %v (sorted) contains %d x %d, the sequential stage delivers %d x (invented or duplicated); expected multiset %v", what, sorted(p.delivered), n, v, wm[v], sorted(want))
			}
		}
		if p.closed {
			if n := e.inflight(); n > 0 {
				return fmt.Sprintf("%s: output observed closed while %d user-function calls are still in flight (cancelled: %v)", what, n, e.cancelled)
			}
		}
		if final {
			if exact && len(p.delivered) != len(want) {
				return fmt.Sprintf("%s: closed after delivering %v (sorted), the sequential stage delivers %v (element lost)", what, sorted(p.delivered), sorted(want))
			}
		}
		return ""
	}
}

func forkF[B any](e *env, f func(int) B) fork.F[int, B] {
	sc := e.sc
	plain := func(x int) B { e.called(x); e.gate(x); return f(x) }
	either := func(x int) (B, error) {
		e.called(x)
		e.gate(x)
		if e.fails(x) {
			if sc.ErrKind%2 == 1 {
				return f(x), e.errFor(x) // the value the function would have returned comes back together with the error
			}
			var zero B
			return zero, e.errFor(x)
		}
		return f(x), nil
	}
	switch sc.Mode {
	case "lift":
		return fork.Lift(either)
	case "try":
		return fork.Try(either)
	}
	return fork.Pure(plain)
}

func forkFF(e *env) fork.FF[int, int] {
	sc := e.sc
	arrow := func(ctx context.Context, x int, out chan<- int) error {
		e.called(x)
		e.gate(x)
		if e.fails(x) {
			return e.errFor(x)
		}
		for _, y := range sc.fan(x) {
			select {
			case out <- y:
			case <-ctx.Done():
				e.mu.Lock()
				e.aborted = true
				e.mu.Unlock()
				if sc.CtxErr {
					return ctx.Err()
				}
				return nil
			}
		}
		return nil
	}
	if sc.Mode == "tryf" {
		return fork.TryF(arrow)
	}
	return fork.LiftF(arrow)
}

// commutative monoids of C10; identities are deliberately not the zero value where possible
type cmonoid struct {
	name  string
	empty int
	op    func(a, b int) int
	elem  func(i, x int) int // maps the i-th drawn element to a value that keeps partial results distinguishable
}

var primes = []int{2, 3, 5, 7, 11, 13, 17, 19, 23, 29, 31, 37, 41, 43, 47}

var cmonoids = []cmonoid{
	{"sum/0", 0, func(a, b int) int { return a + b }, func(i, x int) int { return x + 1 }},
	{"product/1", 1, func(a, b int) int { return a * b }, func(i, x int) int { return primes[(i+x)%len(primes)] }},
	{"max/MinInt", math.MinInt, func(a, b int) int { return max(a, b) }, func(i, x int) int { return x - 10 }},
	{"min/MaxInt", math.MaxInt, func(a, b int) int { return min(a, b) }, func(i, x int) int { return x - 10 }},
	{"and/all-ones", -1, func(a, b int) int { return a & b }, func(i, x int) int { return ^(1 << (uint(x+i) % 40)) }},
	{"union/empty", 0, func(a, b int) int { return a | b }, func(i, x int) int { return 1 << (uint(x) % 40) }},
	{"sum-mod/offset-identity", 0, func(a, b int) int { return (a + b) % 1000003 }, func(i, x int) int { return 3*x + 1 }},
}

func (sc *Scenario) cm() cmonoid {
	return cmonoids[((sc.Monoid%len(cmonoids))+len(cmonoids))%len(cmonoids)]
}

func buildFork(e *env) (post func() string) {
	sc := e.sc
	e.in = []chan int{make(chan int, sc.Caps[0])}
	e.next, e.lastDone, e.accepted, e.closedIn, e.closedCh = make([]int, 1), make([]chan struct{}, 1), make([]int, 1), make([]bool, 1), make([]bool, 1)
	var ro <-chan int = e.in[0]
	e.prefill()
	ctx := e.ctx
	par := max(sc.Par, 1)
	input := sc.In[0]

	callsOnce := func() string {
		want := multiset(input)
		e.mu.Lock()
		defer e.mu.Unlock()
		if len(want) == 0 && len(e.calls) == 0 {
			return ""
		}
		for v, n := range want {
			if e.calls[v] != n {
				return fmt.Sprintf("user function applied %d times to %d, which occurs %d times in the input (calls %v)", e.calls[v], v, n, e.calls)
			}
		}
		for v := range e.calls {
			if want[v] == 0 {
				return fmt.Sprintf("user function applied to %d which is not in the input", v)
			}
		}
		return ""
	}
	exact := sc.Mode != "lift" && sc.Mode != "liftf"

	errPorts := func(out <-chan int, exx <-chan error, vals, errs []int) {
		p := intPort("out", out)
		p.validate = e.multisetValidator(sc.Stage+" values", vals, exact)
		if sc.StdErr {
			p = intPort("out", fork.StdErr(out, exx))
			p.validate = e.multisetValidator(sc.Stage+" values", vals, exact)
			e.ports = []*port{p}
			return
		}
		q := e.errPort("err", exx)
		mv := e.multisetValidator(sc.Stage+" errors", errs, exact)
		q.validate = func(q *port, final bool) string {
			for _, v := range q.delivered {
				if v == -1 {
					return fmt.Sprintf("error channel delivered an error the stage function never returned (%v)", q.delivered)
				}
			}
			if m := mv(q, final); m != "" {
				return m
			}
			if final && !exact && len(errs) > 0 && len(q.delivered) == 0 && len(e.ports[0].delivered) < len(vals) {
				return "fail-fast fork stage closed without delivering any error although elements failed and results are missing"
			}
			return ""
		}
		e.ports = []*port{p, q}
	}

	switch sc.Stage {
	case "fork.map":
		// expected multisets as the sequential stage in Try mode (in Lift mode: upper bounds)
		vals, errs := []int{}, []int{}
		for _, x := range input {
			if sc.Mode != "pure" && e.fails(x) {
				errs = append(errs, x)
			} else {
				vals = append(vals, sc.mapf(x))
			}
		}
		out, exx := fork.Map(ctx, par, ro, forkF(e, sc.mapf))
		errPorts(out, exx, vals, errs)
		if exact {
			return callsOnce
		}
		return nil
	case "fork.fmap":
		vals, errs := []int{}, []int{}
		for _, x := range input {
			if e.fails(x) {
				errs = append(errs, x)
			} else {
				vals = append(vals, sc.fan(x)...)
			}
		}
		out, exx := fork.FMap(ctx, par, ro, forkFF(e))
		errPorts(out, exx, vals, errs)
		if exact {
			return callsOnce
		}
		return nil
	case "fork.filter":
		want := []int{}
		for _, x := range input {
			if sc.pred(x) {
				want = append(want, x)
			}
		}
		p := intPort("out", fork.Filter(ctx, par, ro, forkF(e, sc.pred)))
		p.validate = e.multisetValidator("fork.filter", want, true)
		e.ports = []*port{p}
		if sc.Mode == "lift" || sc.Mode == "try" {
			// a predicate that returns errors: the reference is what the sequential pipe stage delivers with the same predicate
			ref := pipe.ToSeq(pipe.Filter(context.Background(), pipe.Seq(input...), e.refPred()))
			p.validate = e.multisetValidator("fork.filter (predicate returns errors; reference: pipe.Filter with the same predicate)", ref, true)
		}
		return callsOnce
	case "fork.partition":
		l, r := []int{}, []int{}
		for _, x := range input {
			if sc.pred(x) {
				l = append(l, x)
			} else {
				r = append(r, x)
			}
		}
		lo, ro2 := fork.Partition(ctx, par, ro, forkF(e, sc.pred))
		p, q := intPort("left", lo), intPort("right", ro2)
		p.validate, q.validate = e.multisetValidator("fork.partition/left", l, true), e.multisetValidator("fork.partition/right", r, true)
		e.ports = []*port{p, q}
		if sc.Mode == "lift" || sc.Mode == "try" {
			// reference: pipe.Partition with the same predicate; each side is drained by a goroutine of its own
			rl, rr := pipe.Partition(context.Background(), pipe.Seq(input...), e.refPred())
			var refL, refR []int
			done := make(chan struct{})
			go func() { refR = pipe.ToSeq(rr); close(done) }()
			refL = pipe.ToSeq(rl)
			<-done
			p.validate, q.validate = e.multisetValidator("fork.partition/left (predicate returns errors; reference: pipe.Partition)", refL, true), e.multisetValidator("fork.partition/right (predicate returns errors; reference: pipe.Partition)", refR, true)
		}
		return callsOnce
	case "fork.forEach":
		p := donePort("done", fork.ForEach(ctx, par, ro, forkF(e, func(x int) int { return x })))
		p.validate = e.multisetValidator("fork.forEach", []int{}, true)
		e.ports = []*port{p}
		return callsOnce
	case "fork.void":
		p := donePort("done", fork.Void(ctx, par, ro))
		p.validate = e.multisetValidator("fork.void", []int{}, true)
		e.ports = []*port{p}
		return func() string {
			e.mu.Lock()
			acc := e.accepted[0]
			e.mu.Unlock()
			if acc != len(input) || len(e.in[0]) != 0 {
				return fmt.Sprintf("fork.void: %d of %d elements drained", acc-len(e.in[0]), len(input))
			}
			return ""
		}
	case "fork.fold":
		cm := sc.cm()
		elems := input // already mapped through cm.elem by the generator
		full := cm.empty
		for _, x := range elems {
			full = cm.op(full, x)
		}
		// the same fold by the sequential stage, on a pre-filled channel
		seqIn := make(chan int, len(elems))
		for _, x := range elems {
			seqIn <- x
		}
		close(seqIn)
		sv, svOK := <-pipe.Fold(context.Background(), seqIn, monoid.FromOp(cm.empty, cm.op))
		gatedOp := func(a, b int) int {
			e.called(b)
			e.gate(b)
			return cm.op(a, b)
		}
		p := intPort("fold", fork.Fold(ctx, par, ro, monoid.FromOp(cm.empty, gatedOp)))
		p.validate = func(p *port, final bool) string {
			e.mu.Lock()
			accepted, ended := e.accepted[0], e.closedCh[0]
			e.mu.Unlock()
			want := cm.empty
			for _, x := range elems[:accepted] {
				want = cm.op(want, x)
			}
			if len(p.delivered) > 1 {
				return fmt.Sprintf("fork.fold(%s, %d workers): delivered %v, more than one value", cm.name, par, p.delivered)
			}
			if len(p.delivered) == 1 && p.delivered[0] != full && !(ended && p.delivered[0] == want) {
				return fmt.Sprintf("fork.fold(%s, %d workers) over %v delivered %v; the sequential fold is %d (accepted so far %d, input ended %v)", cm.name, par, elems, p.delivered, full, accepted, ended)
			}
			if sc.PreCancel && p.closed && ended {
				// created on a context that had ended already: whatever pipe.Fold does with the same (ended) context and the
				// same input is the reference - it delivers Empty() for an input that ends without an element, nothing otherwise
				dead, kill := context.WithCancel(context.Background())
				kill()
				refIn := make(chan int, accepted)
				for _, x := range elems[:accepted] {
					refIn <- x
				}
				close(refIn)
				rv, rok := <-pipe.Fold(dead, refIn, monoid.FromOp(cm.empty, cm.op))
				if rok != (len(p.delivered) == 1) || rok && p.delivered[0] != rv {
					return fmt.Sprintf("fork.fold(%s, %d workers) created on an ended context over %v (input closed): delivered %v; pipe.Fold under the same conditions delivers %v (ok=%v)", cm.name, par, elems[:accepted], p.delivered, rv, rok)
				}
			}
			if final {
				if !svOK || len(p.delivered) != 1 || p.delivered[0] != full || sv != full {
					return fmt.Sprintf("fork.fold(%s, %d workers) over %v: closed after delivering %v; pipe.Fold gives %d, a plain loop from Empty() gives %d", cm.name, par, elems, p.delivered, sv, full)
				}
			}
			return ""
		}
		e.ports = []*port{p}
		return nil
	}
	panic("unknown fork stage " + sc.Stage)
}

// refPred is the scenario's predicate as a pipe morphism of the scenario's mode, without gates and bookkeeping:
// the sequential reference stage runs with it.
func (e *env) refPred() pipe.F[int, bool] {
	sc := e.sc
	either := func(x int) (bool, error) {
		if e.fails(x) {
			if sc.ErrKind%2 == 1 {
				return sc.pred(x), fmt.Errorf("E%d", x)
			}
			return false, fmt.Errorf("E%d", x)
		}
		return sc.pred(x), nil
	}
	if sc.Mode == "lift" {
		return pipe.Lift(either)
	}
	return pipe.Try(either)
}
