// Package pipes is engine E3: environment-move scripts executed at the quiescent points of a
// testing/synctest bubble against the sequential stages of github.com/fogfish/golem/pipe/v2.
package pipes

import (
	"context"
	"errors"
	"fmt"
	"io"
	"runtime"
	"strings"
	"sync"
	"sync/atomic"
	"testing"
	"testing/synctest"
	"time"

	"verif/harness/bubble"
)

// Move is one environment action.  All moves are executed by the bubble's root goroutine and
// never block; after each top-level move the executor calls synctest.Wait().
type Move struct {
	K   string `json:"k"`             // send burst close recv drain cancel tick batch
	I   int    `json:"i,omitempty"`   // input index (send/burst/close) or port index (recv/drain), taken modulo what exists
	M   int    `json:"m,omitempty"`   // burst: number of elements; tick: number of time units
	Sub []Move `json:"sub,omitempty"` // batch: executed back-to-back without an intervening Wait
}

// Scenario is plain data: everything an execution depends on (apart from runtime-owned choices).
type Scenario struct {
	Prop        string  `json:"prop"`
	Stage       string  `json:"stage"`
	Mode        string  `json:"mode,omitempty"` // pure lift try | liftf tryf
	StdErr      bool    `json:"stderr,omitempty"`
	Caps        []int   `json:"caps"`
	In          [][]int `json:"in"`
	N           int     `json:"n,omitempty"` // take: n ; join: unused
	F           int     `json:"f,omitempty"`
	A           int     `json:"a,omitempty"`
	B           int     `json:"b,omitempty"`
	Fail        []int   `json:"fail,omitempty"`    // values (map/fmap/unfold) or indices (emit) on which the user function fails
	ErrKind     int     `json:"errkind,omitempty"` // 0 plain, 1 wraps context.Canceled, 2 wraps io.EOF, 3 wraps context.DeadlineExceeded, 4 slice-typed (non-comparable) error
	CtxErr      bool    `json:"ctxerr,omitempty"`  // arrows return ctx.Err() (true) or nil (false) when they see the cancel
	Ops         int     `json:"ops,omitempty"`     // throttle
	Interval    int     `json:"interval,omitempty"`
	Freq        int     `json:"freq,omitempty"` // emit: frequency in time units
	Seed        int     `json:"seed,omitempty"` // unfold
	Unit        int     `json:"unit,omitempty"` // nanoseconds per time unit (tick, interval, freq)
	Script      []Move  `json:"script"`
	NoFinish    bool    `json:"nofinish,omitempty"`    // C06: after the script nobody receives any more: cancel + close inputs only
	Prefill     int     `json:"prefill,omitempty"`     // elements already sitting in the (buffered) input 0 when the stage is created
	PreCancel   bool    `json:"precancel,omitempty"`   // the context is already cancelled when the stage is created
	Repeat      int     `json:"repeat,omitempty"`      // execute the scenario this many times (samples scheduler-owned overlaps)
	CancelAtEnd bool    `json:"cancelAtEnd,omitempty"` // free-running tier: the producer starts a goroutine that cancels, sends the last element and closes the input, without yielding in between
	PrefillAll  bool    `json:"prefillAll,omitempty"`  // every input buffer is filled before the stage is created
	Deadline    bool    `json:"deadline,omitempty"`    // the context ends by a deadline (Err() == context.DeadlineExceeded), not by an explicit cancel
	Twin        bool    `json:"twin,omitempty"`        // a second, independent instance of the same stage runs alongside on its own input and context
	Par         int     `json:"par,omitempty"`         // fork stages: number of workers
	Gated       bool    `json:"gated,omitempty"`       // fork stages: user calls block on gates opened by release moves
	Monoid      int     `json:"monoid,omitempty"`      // fork.Fold: commutative monoid family member
	T           Timing  `json:"t,omitzero"`            // C11/C13/C08 only
}

func (sc *Scenario) unit() time.Duration {
	if sc.Unit <= 0 {
		return time.Millisecond
	}
	return time.Duration(sc.Unit)
}

// ---------------------------------------------------------------------------------------------

type stageErr struct {
	v    int
	wrap error
}

func (e *stageErr) Error() string { return fmt.Sprintf("E(%d)", e.v) }
func (e *stageErr) Unwrap() error { return e.wrap }

// port is one channel returned by the stage under test.
type port struct {
	name      string
	try       func() (v int, ok bool, closed bool)
	delivered []int
	stamps    []time.Duration // virtual time of each delivery, relative to the start of the scenario
	closed    bool
	isErr     bool
	ctxErrs   int // context errors produced by the harness's own arrows after a cancel (not part of the uncancelled result)
	// validate checks what has been delivered so far; final means "observed closed in a run that was never cancelled".
	validate func(p *port, final bool) string
}

type env struct {
	sc        *Scenario
	ctx       context.Context
	cancel    context.CancelFunc
	cancelled bool
	start     time.Time

	in       []chan int
	next     []int           // index of the next element of In[i] not yet handed over
	lastDone []chan struct{} // completion of the last producer goroutine started for input i
	accepted []int           // elements of input i whose send completed (guarded by mu)
	closedIn []bool          // close of input i requested
	closedCh []bool          // input i actually closed (guarded by mu)
	envStop  chan struct{}   // closed at the end: releases harness producers

	ports []*port

	mu           sync.Mutex
	calls        map[int]int // user function calls per argument
	callLog      []int
	callAt       []time.Duration
	errs         map[int]*stageErr
	slow         func(int) time.Duration // virtual time a user-function call takes (C11)
	gated        bool
	pendingCalls []*gcall      // user calls blocked on their gate, in arrival order
	barrier      chan struct{} // closed by releaseAll: every pending call returns on one wake-up
	spinN        int32         // number of calls that meet at the spin barrier after that wake-up
	arrived      int32
	maxInflight  int
	reordered    bool  // some release move opened a gate other than the oldest
	sentLog      []int // values the harness arrows managed to send (FMap)
	aborted      bool  // an arrow abandoned an element because it saw the cancel
}

// sliceErr is an error of a non-comparable dynamic type (like go/scanner.ErrorList): comparing two of
// them with == panics at run time.
type sliceErr []int

func (e sliceErr) Error() string { return fmt.Sprintf("E%v", []int(e)) }

func (e *env) errFor(v int) error {
	if e.sc.ErrKind == 4 {
		return sliceErr{v}
	}
	e.mu.Lock()
	defer e.mu.Unlock()
	if x, ok := e.errs[v]; ok {
		return x
	}
	x := &stageErr{v: v}
	switch e.sc.ErrKind {
	case 1:
		x.wrap = context.Canceled
	case 2:
		x.wrap = io.EOF
	case 3:
		x.wrap = context.DeadlineExceeded
	}
	e.errs[v] = x
	return x
}

func (e *env) called(v int) {
	e.mu.Lock()
	e.calls[v]++
	e.callLog = append(e.callLog, v)
	e.callAt = append(e.callAt, time.Since(e.start))
	e.mu.Unlock()
	if e.slow != nil {
		if d := e.slow(v); d > 0 {
			time.Sleep(d)
		}
	}
}

func (e *env) fails(v int) bool {
	for _, f := range e.sc.Fail {
		if f == v {
			return true
		}
	}
	return false
}

// decodeErr maps an error received from the stage back to the value it was generated for.
// -1: an error the harness never produced; -2: a context error returned by a harness arrow after cancel.
func (e *env) decodeErr(err error) int {
	if sl, ok := err.(sliceErr); ok && len(sl) == 1 && e.sc.ErrKind == 4 {
		return sl[0]
	}
	var se *stageErr
	if errors.As(err, &se) {
		e.mu.Lock()
		known := e.errs[se.v] == err
		e.mu.Unlock()
		if known {
			return se.v
		}
		return -1
	}
	if (err == context.Canceled || err == context.DeadlineExceeded && e.sc.Deadline) && e.cancelled {
		return -2
	}
	return -1
}

func intPort(name string, ch <-chan int) *port {
	return &port{name: name, try: func() (int, bool, bool) {
		select {
		case v, ok := <-ch:
			return v, ok, !ok
		default:
			return 0, false, false
		}
	}}
}

func donePort(name string, ch <-chan struct{}) *port {
	return &port{name: name, try: func() (int, bool, bool) {
		select {
		case _, ok := <-ch:
			return 0, ok, !ok
		default:
			return 0, false, false
		}
	}}
}

func (e *env) errPort(name string, ch <-chan error) *port {
	return &port{name: name, isErr: true, try: func() (int, bool, bool) {
		select {
		case err, ok := <-ch:
			if !ok {
				return 0, false, true
			}
			return e.decodeErr(err), true, false
		default:
			return 0, false, false
		}
	}}
}

// ---------------------------------------------------------------------------------------------
// moves

// hand starts (chained) producer goroutine(s) that send elems on input i in order, blocking.
func (e *env) hand(i int, elems []int, thenClose bool) {
	prev := e.lastDone[i]
	done := make(chan struct{})
	e.lastDone[i] = done
	ch := e.in[i]
	go func() {
		defer close(done)
		if prev != nil {
			select {
			case <-prev:
			case <-e.envStop:
				return
			}
		}
		for _, x := range elems {
			select {
			case ch <- x:
				e.mu.Lock()
				e.accepted[i]++
				e.mu.Unlock()
			case <-e.envStop:
				return
			}
		}
		if thenClose {
			select {
			case <-e.envStop:
				return
			default:
			}
			close(ch)
			e.mu.Lock()
			e.closedCh[i] = true
			e.mu.Unlock()
		}
	}()
}

func (e *env) pending(i int) bool {
	d := e.lastDone[i]
	if d == nil {
		return false
	}
	select {
	case <-d:
		return false
	default:
		return true
	}
}

func (e *env) recv(p *port) (progress bool, msg string) {
	if p.closed {
		return false, ""
	}
	v, ok, closed := p.try()
	if closed {
		p.closed = true
		return true, p.validate(p, !e.cancelled)
	}
	if !ok {
		return false, ""
	}
	if p.isErr && v == -2 {
		p.ctxErrs++
		return true, ""
	}
	p.delivered = append(p.delivered, v)
	p.stamps = append(p.stamps, time.Since(e.start))
	return true, p.validate(p, false)
}

func (e *env) do(m Move) string {
	switch m.K {
	case "send":
		if len(e.in) == 0 {
			return ""
		}
		i := m.I % len(e.in)
		if e.closedIn[i] || e.next[i] >= len(e.sc.In[i]) {
			return ""
		}
		x := e.sc.In[i][e.next[i]]
		if e.pending(i) {
			e.next[i]++
			e.hand(i, []int{x}, false)
			return ""
		}
		select {
		case e.in[i] <- x:
			e.next[i]++
			e.mu.Lock()
			e.accepted[i]++
			e.mu.Unlock()
		default: // would block: the environment does not insist
		}
	case "burst":
		if len(e.in) == 0 {
			return ""
		}
		i := m.I % len(e.in)
		if e.closedIn[i] {
			return ""
		}
		n := min(max(m.M, 1), len(e.sc.In[i])-e.next[i])
		if n <= 0 {
			return ""
		}
		e.hand(i, e.sc.In[i][e.next[i]:e.next[i]+n], false)
		e.next[i] += n
	case "close":
		if len(e.in) == 0 {
			return ""
		}
		i := m.I % len(e.in)
		if e.closedIn[i] {
			return ""
		}
		// close is legal only after the last element was handed over: hand the rest first
		rest := e.sc.In[i][e.next[i]:]
		e.next[i] = len(e.sc.In[i])
		e.closedIn[i] = true
		e.hand(i, rest, true)
	case "recv":
		if len(e.ports) == 0 {
			return ""
		}
		_, msg := e.recv(e.ports[m.I%len(e.ports)])
		return msg
	case "drain":
		if len(e.ports) == 0 {
			return ""
		}
		p := e.ports[m.I%len(e.ports)]
		for k := 0; k < 1000; k++ {
			prog, msg := e.recv(p)
			if msg != "" {
				return msg
			}
			if !prog || p.closed {
				break
			}
		}
	case "cancel":
		// calls in flight stay gated: the outputs must not close while they are (the gates open after the script)
		e.cancelled = true
		e.cancel()
	case "release":
		e.release(m.I)
	case "releaseAll":
		e.mu.Lock()
		n := len(e.pendingCalls)
		e.mu.Unlock()
		for k := 0; k < n; k++ {
			e.release(0)
		}
	case "barrier":
		e.releaseAll() // one wake-up for all pending calls
	case "tick":
		time.Sleep(time.Duration(max(m.M, 1)) * e.sc.unit())
	case "wait":
		// seconds, minutes or an hour of virtual time: nothing may depend on how long the environment takes
		time.Sleep(time.Duration(max(m.M, 1)) * time.Second)
	case "batch":
		for _, s := range m.Sub {
			if s.K == "batch" || s.K == "tick" {
				continue
			}
			if msg := e.do(s); msg != "" {
				return msg
			}
		}
	}
	return ""
}

// allClosed reports whether every port has been observed closed.
func (e *env) allClosed() bool {
	for _, p := range e.ports {
		if !p.closed {
			return false
		}
	}
	return true
}

// fair runs a fair consumer over all ports until nothing moves any more at quiescence.
// idleTicks > 0 lets virtual time advance (timer-driven stages) before giving up.
func (e *env) fair(idleTicks int, stop func() bool) string {
	idle := 0
	for round := 0; round < 100000; round++ {
		synctest.Wait()
		progress := false
		for _, p := range e.ports {
			for k := 0; k < 64; k++ {
				prog, msg := e.recv(p)
				if msg != "" {
					return msg
				}
				if !prog {
					break
				}
				progress = true
			}
		}
		if stop != nil && stop() {
			return ""
		}
		if e.allClosed() {
			return ""
		}
		if progress {
			idle = 0
			continue
		}
		if idle >= idleTicks {
			return ""
		}
		idle++
		time.Sleep(e.sc.unit())
	}
	return "harness: fair consumer did not settle"
}

// census lists the goroutines of the calling goroutine's bubble that have a frame inside the pipe module.
func census() []string {
	buf := make([]byte, 1<<20)
	n := runtime.Stack(buf, true)
	recs := strings.Split(string(buf[:n]), "\n\n")
	if len(recs) == 0 {
		return nil
	}
	bubbleTag := ""
	if i := strings.Index(recs[0], "synctest bubble "); i >= 0 {
		j := strings.IndexAny(recs[0][i:], "]\n")
		bubbleTag = recs[0][i : i+j]
	}
	var out []string
	for _, r := range recs[1:] {
		head, _, _ := strings.Cut(r, "\n")
		if bubbleTag == "" || !strings.Contains(head, bubbleTag+"]") {
			continue
		}
		if strings.Contains(r, "github.com/fogfish/golem/pipe/v2") {
			out = append(out, r)
		}
	}
	return out
}

func summarize(gs []string) string {
	var b strings.Builder
	for _, g := range gs {
		lines := strings.Split(g, "\n")
		b.WriteString(lines[0])
		for _, l := range lines[1:] {
			if strings.Contains(l, "github.com/fogfish/golem/pipe/v2") && !strings.HasPrefix(l, "\t") {
				b.WriteString("  " + strings.TrimSpace(l))
				break
			}
		}
		b.WriteString("\n")
	}
	return b.String()
}

// Result of one execution, for classification.
type Result struct {
	Msg           string
	Backpressure  bool // some quiescent point had a producer blocked or an output buffer full
	CancelBlocked bool // the cancel happened while the stage was blocked on a send
	Received      int
	MaxInflight   int
	Reordered     bool
}

// Exec runs the scenario in a fresh bubble.  A bubble that cannot end (goroutines of the stage
// still blocked when the root goroutine returns) is a leak; the scenario is then executed once
// more with the goroutine census switched on to say which goroutines they are.
func Exec(t *testing.T, sc *Scenario) Result {
	var res Result
	b := bubble.Run(t, func() { res = run(sc, false) })
	if res.Msg == "" && b != "" {
		res.Msg = "goroutine leak / deadlock: " + b
		var again Result
		bubble.Run(t, func() { again = run(sc, true) })
		if again.Msg != "" {
			res.Msg += "\n" + again.Msg
		}
	}
	return res
}

// ---- gates (engine E4): the completion order of in-flight user calls is part of the script

type gcall struct {
	arg  int
	gate chan struct{}
}

// gate blocks the calling user function until a release move (or the end of the scenario) lets it go.
func (e *env) gate(x int) {
	e.mu.Lock()
	if !e.gated {
		e.mu.Unlock()
		return
	}
	c := &gcall{arg: x, gate: make(chan struct{})}
	e.pendingCalls = append(e.pendingCalls, c)
	if len(e.pendingCalls) > e.maxInflight {
		e.maxInflight = len(e.pendingCalls)
	}
	if e.barrier == nil {
		e.barrier = make(chan struct{})
	}
	barrier := e.barrier
	e.mu.Unlock()
	select {
	case <-c.gate:
	case <-barrier:
		// leave together: the woken calls meet at a spin barrier, so that they return within nanoseconds of each other
		// (a channel close alone readies them microseconds apart)
		n := atomic.LoadInt32(&e.spinN)
		if atomic.AddInt32(&e.arrived, 1) <= n {
			for k := 0; atomic.LoadInt32(&e.arrived) < n && k < 200000; k++ {
				if k%64 == 63 {
					runtime.Gosched()
				}
			}
		}
	case <-e.envStop:
	}
}

// releaseAll lets every pending call return at the same instant: one close wakes all of them (the per-call gates are
// closed one after the other, microseconds apart).
func (e *env) releaseAll() {
	e.mu.Lock()
	defer e.mu.Unlock()
	if len(e.pendingCalls) > 1 {
		e.reordered = true
	}
	if e.barrier != nil {
		atomic.StoreInt32(&e.arrived, 0)
		atomic.StoreInt32(&e.spinN, int32(min(len(e.pendingCalls), 8)))
		close(e.barrier)
		e.barrier = nil
	}
	e.pendingCalls = nil
}

func (e *env) release(j int) {
	e.mu.Lock()
	defer e.mu.Unlock()
	if len(e.pendingCalls) == 0 {
		return
	}
	j = j % len(e.pendingCalls)
	if j != 0 {
		e.reordered = true
	}
	close(e.pendingCalls[j].gate)
	e.pendingCalls = append(e.pendingCalls[:j], e.pendingCalls[j+1:]...)
}

// openGates releases every blocked call and lets future calls pass.
func (e *env) openGates() {
	e.mu.Lock()
	defer e.mu.Unlock()
	e.gated = false
	for _, c := range e.pendingCalls {
		close(c.gate)
	}
	e.pendingCalls = nil
}

func (e *env) inflight() int {
	e.mu.Lock()
	defer e.mu.Unlock()
	return len(e.pendingCalls)
}

// expCtx is a context that ends like a deadline context does (Err() == context.DeadlineExceeded) at the moment the
// script says so.  A real context.WithDeadline cannot be made to expire at a scripted quiescent point.
type expCtx struct {
	done chan struct{}
	mu   sync.Mutex
	err  error
}

func (c *expCtx) Deadline() (time.Time, bool) { return time.Time{}, false }
func (c *expCtx) Done() <-chan struct{}       { return c.done }
func (c *expCtx) Value(any) any               { return nil }
func (c *expCtx) Err() error {
	c.mu.Lock()
	defer c.mu.Unlock()
	return c.err
}
func (c *expCtx) expire() {
	c.mu.Lock()
	defer c.mu.Unlock()
	if c.err == nil {
		c.err = context.DeadlineExceeded
		close(c.done)
	}
}

// newCtx: the context of a scenario and the function that ends it (cancel, or expiry when sc.Deadline).
func newCtx(sc *Scenario) (context.Context, context.CancelFunc) {
	if sc.Deadline {
		c := &expCtx{done: make(chan struct{})}
		return c, c.expire
	}
	return context.WithCancel(context.Background())
}
