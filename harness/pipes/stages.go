package pipes

import (
	"context"
	"fmt"
	"reflect"
	"strings"
	"testing/synctest"
	"time"

	"github.com/fogfish/golem/pipe/v2"
	"github.com/fogfish/golem/pure/monoid"
)

// ---- user function families (pure, total)

func (sc *Scenario) mapf(x int) int { return (sc.A%3+1)*x + sc.B }

func (sc *Scenario) pred(x int) bool {
	switch sc.F % 4 {
	case 1:
		return true
	case 2:
		return false
	case 3:
		return x < sc.B
	}
	m := sc.A%3 + 2
	return ((x%m)+m)%m != ((sc.B%m)+m)%m
}

// arrow output for x: 0..3 values
func (sc *Scenario) fan(x int) []int {
	n := (((x + sc.A) % 4) + 4) % 4
	out := []int{}
	for j := 0; j < n; j++ {
		out = append(out, x*10+j)
	}
	return out
}

const foldMod = 1000003

func foldOp(a, b int) int { return (a*31 + b) % foldMod }

func (sc *Scenario) foldEmpty() int { return sc.B%5 + 1 } // never the zero value

func (sc *Scenario) step(x int) int { return ((sc.A%3+2)*x + sc.B%7 + 1) % 101 } // unfold step

func (sc *Scenario) emitf(i int) int { return (sc.A%3+1)*i + sc.B }

// ---- lifting

func liftF[B any](e *env, f func(int) B) pipe.F[int, B] {
	sc := e.sc
	plain := func(x int) B { e.called(x); return f(x) }
	either := func(x int) (B, error) {
		e.called(x)
		if e.fails(x) {
			var zero B
			return zero, e.errFor(x)
		}
		return f(x), nil
	}
	switch sc.Mode {
	case "lift":
		return pipe.Lift(either)
	case "try":
		return pipe.Try(either)
	}
	return pipe.Pure(plain)
}

func liftFF(e *env) pipe.FF[int, int] {
	sc := e.sc
	arrow := func(ctx context.Context, x int, out chan<- int) error {
		e.called(x)
		if e.fails(x) {
			return e.errFor(x)
		}
		for _, y := range sc.fan(x) {
			e.mu.Lock()
			e.sentLog = append(e.sentLog, y) // logged before the send: the receiver may look at the log first
			e.mu.Unlock()
			select {
			case out <- y:
			case <-ctx.Done():
				// the arrow honours the cancel: the rest of this element's output is never produced
				e.mu.Lock()
				e.sentLog = e.sentLog[:len(e.sentLog)-1]
				e.aborted = true
				e.mu.Unlock()
				if sc.CtxErr {
					return ctx.Err()
				}
				return nil
			}
		}
		return nil
	}
	if sc.Mode == "tryf" {
		return pipe.TryF(arrow)
	}
	return pipe.LiftF(arrow)
}

// ---- expected results of an uncancelled run

func isPrefix(d, want []int) bool {
	if len(d) > len(want) {
		return false
	}
	return reflect.DeepEqual(append([]int{}, d...), append([]int{}, want[:len(d)]...))
}

// subseqValidator: with a predicate that returns errors the properties say nothing about which elements come out,
// only that nothing is invented, duplicated or reordered (liveness and leak clauses apply as for any other function).
func subseqValidator(what string, in []int) func(p *port, final bool) string {
	return func(p *port, final bool) string {
		k := 0
		for _, v := range p.delivered {
			for k < len(in) && in[k] != v {
				k++
			}
			if k == len(in) {
				return fmt.Sprintf("%s (predicate returns errors): delivered %v is not a subsequence of the input %v", what, p.delivered, in)
			}
			k++
		}
		return ""
	}
}

func (sc *Scenario) errPred() bool {
	return (sc.Stage == "filter" || sc.Stage == "takeWhile" || sc.Stage == "partition") && (sc.Mode == "lift" || sc.Mode == "try")
}

func listValidator(what string, want []int) func(p *port, final bool) string {
	return func(p *port, final bool) string {
		if !isPrefix(p.delivered, want) {
			return fmt.Sprintf("%s: delivered %v is not a prefix of the expected %v", what, p.delivered, want)
		}
		if final && len(p.delivered) != len(want) {
			return fmt.Sprintf("%s: closed after delivering %v, expected %v", what, p.delivered, want)
		}
		return ""
	}
}

// allOrNothing: Fold/ForEach/Void style outputs deliver nothing, or (Fold) the one final value.
func allOrNothing(what string, want []int) func(p *port, final bool) string {
	return func(p *port, final bool) string {
		if len(p.delivered) != 0 && !reflect.DeepEqual(p.delivered, want) {
			return fmt.Sprintf("%s: delivered %v, the uncancelled result is %v", what, p.delivered, want)
		}
		if final && len(p.delivered) != len(want) {
			return fmt.Sprintf("%s: closed after delivering %v, expected %v", what, p.delivered, want)
		}
		return ""
	}
}

// valuesAndErrors computes the expected value and error streams of Map/FMap under the scenario's mode.
func (sc *Scenario) valuesAndErrors(img func(int) []int) (vals, errs []int, consumed int) {
	vals, errs = []int{}, []int{}
	fails := func(v int) bool {
		for _, f := range sc.Fail {
			if f == v {
				return true
			}
		}
		return false
	}
	for k, x := range sc.In[0] {
		consumed = k + 1
		if sc.Mode != "pure" && fails(x) {
			errs = append(errs, x)
			if sc.Mode == "lift" || sc.Mode == "liftf" {
				return
			}
			continue
		}
		vals = append(vals, img(x)...)
	}
	return vals, errs, len(sc.In[0])
}

// build creates the channels, the stage under test and its ports.  It returns a post-condition
// evaluated after an uncancelled run completed (call counts, consumption).
func build(e *env) (post func() string) {
	sc := e.sc
	nIn := len(sc.In)
	e.in = make([]chan int, nIn)
	for i := range e.in {
		e.in[i] = make(chan int, sc.Caps[i])
	}
	e.next = make([]int, nIn)
	e.lastDone = make([]chan struct{}, nIn)
	e.accepted = make([]int, nIn)
	e.closedIn = make([]bool, nIn)
	e.closedCh = make([]bool, nIn)
	var ro <-chan int
	if nIn > 0 {
		ro = e.in[0]
		e.prefill()
	}
	ctx := e.ctx

	// number of calls expected per argument when every consumed element is processed once
	callsOnce := func(consumed int) func() string {
		return func() string {
			want := map[int]int{}
			for _, x := range sc.In[0][:consumed] {
				want[x]++
			}
			e.mu.Lock()
			defer e.mu.Unlock()
			if !reflect.DeepEqual(want, e.calls) && !(len(want) == 0 && len(e.calls) == 0) {
				return fmt.Sprintf("user function calls per argument %v, want exactly one per processed element %v (call log %v)", e.calls, want, e.callLog)
			}
			wantLog := append([]int{}, sc.In[0][:consumed]...)
			if !reflect.DeepEqual(append([]int{}, e.callLog...), wantLog) {
				return fmt.Sprintf("user function was applied in the order %v, input order is %v", e.callLog, wantLog)
			}
			return ""
		}
	}
	consumedAtMost := func(n int) func() string {
		return func() string {
			e.mu.Lock()
			acc := e.accepted[0]
			e.mu.Unlock()
			taken := acc - len(e.in[0])
			if taken > n {
				return fmt.Sprintf("stage removed %d elements from its input, allowed at most %d", taken, n)
			}
			return ""
		}
	}
	both := func(fs ...func() string) func() string {
		return func() string {
			for _, f := range fs {
				if f != nil {
					if m := f(); m != "" {
						return m
					}
				}
			}
			return ""
		}
	}

	errPorts := func(out <-chan int, exx <-chan error, vals, errs []int) {
		if sc.StdErr {
			o := pipe.StdErr(out, exx)
			p := intPort("out", o)
			p.validate = listValidator("values", vals)
			e.ports = []*port{p}
			return
		}
		p := intPort("out", out)
		p.validate = listValidator("values", vals)
		q := e.errPort("err", exx)
		q.validate = func(p *port, final bool) string {
			for _, v := range p.delivered {
				if v == -1 {
					return fmt.Sprintf("error channel delivered an error the stage function never returned (errors so far %v)", p.delivered)
				}
			}
			return listValidator("errors", errs)(p, final)
		}
		e.ports = []*port{p, q}
	}

	if strings.HasPrefix(sc.Stage, "fork.") {
		return buildFork(e)
	}
	switch sc.Stage {
	case "map":
		vals, errs, consumed := sc.valuesAndErrors(func(x int) []int { return []int{sc.mapf(x)} })
		out, exx := pipe.Map(ctx, ro, liftF(e, sc.mapf))
		errPorts(out, exx, vals, errs)
		if sc.Mode == "lift" && len(errs) > 0 {
			return both(callsOnce(consumed), consumedAtMost(consumed))
		}
		return callsOnce(consumed)
	case "fmap":
		vals, errs, consumed := sc.valuesAndErrors(sc.fan)
		out, exx := pipe.FMap(ctx, ro, liftFF(e))
		errPorts(out, exx, vals, errs)
		// Once an arrow has abandoned an element because it saw the cancel, what follows is no longer the
		// uncancelled stream (Try mode may go on with the next element): from then on the values are only
		// required to be exactly what the arrows managed to send, in that order.
		strict := e.ports[0].validate
		e.ports[0].validate = func(p *port, final bool) string {
			e.mu.Lock()
			aborted, sent := e.aborted, append([]int{}, e.sentLog...)
			e.mu.Unlock()
			if !isPrefix(p.delivered, sent) {
				return fmt.Sprintf("fmap: delivered %v, but the arrows sent %v (lost, duplicated, reordered or invented)", p.delivered, sent)
			}
			if aborted {
				return ""
			}
			return strict(p, final)
		}
		if sc.Mode == "liftf" && len(errs) > 0 {
			return both(callsOnce(consumed), consumedAtMost(consumed))
		}
		return callsOnce(consumed)
	case "filter":
		want := []int{}
		for _, x := range sc.In[0] {
			if sc.pred(x) {
				want = append(want, x)
			}
		}
		p := intPort("out", pipe.Filter(ctx, ro, liftF(e, sc.pred)))
		p.validate = listValidator("filter", want)
		e.ports = []*port{p}
		if sc.errPred() {
			p.validate = subseqValidator("filter", sc.In[0])
			return nil
		}
		return callsOnce(len(sc.In[0]))
	case "take":
		n := min(sc.N, len(sc.In[0]))
		want := append([]int{}, sc.In[0][:n]...)
		p := intPort("out", pipe.Take(ctx, ro, sc.N))
		p.validate = listValidator(fmt.Sprintf("take %d", sc.N), want)
		e.ports = []*port{p}
		return consumedAtMost(sc.N)
	case "takeWhile":
		want := []int{}
		consumed := len(sc.In[0])
		for k, x := range sc.In[0] {
			if !sc.pred(x) {
				consumed = k + 1
				break
			}
			want = append(want, x)
		}
		p := intPort("out", pipe.TakeWhile(ctx, ro, liftF(e, sc.pred)))
		p.validate = listValidator("takeWhile", want)
		e.ports = []*port{p}
		if sc.errPred() {
			p.validate = subseqValidator("takeWhile", sc.In[0])
			return nil
		}
		return both(callsOnce(consumed), consumedAtMost(consumed))
	case "partition":
		l, r := []int{}, []int{}
		for _, x := range sc.In[0] {
			if sc.pred(x) {
				l = append(l, x)
			} else {
				r = append(r, x)
			}
		}
		lo, ro2 := pipe.Partition(ctx, ro, liftF(e, sc.pred))
		p, q := intPort("left", lo), intPort("right", ro2)
		p.validate, q.validate = listValidator("partition/left", l), listValidator("partition/right", r)
		e.ports = []*port{p, q}
		if sc.errPred() {
			p.validate, q.validate = subseqValidator("partition/left", sc.In[0]), subseqValidator("partition/right", sc.In[0])
			return nil
		}
		return callsOnce(len(sc.In[0]))
	case "fold":
		acc := sc.foldEmpty()
		for _, x := range sc.In[0] {
			acc = foldOp(acc, x)
		}
		m := monoid.FromOp(sc.foldEmpty(), foldOp)
		p := intPort("fold", pipe.Fold(ctx, ro, m))
		full := acc
		p.validate = func(p *port, final bool) string {
			// The one value is due when the input has ended.  If the environment closed the input early
			// (it does so after a cancel), the input that really existed is what had been accepted.
			e.mu.Lock()
			accepted, ended := e.accepted[0], e.closedCh[0]
			e.mu.Unlock()
			want := sc.foldEmpty()
			for _, x := range sc.In[0][:accepted] {
				want = foldOp(want, x)
			}
			if len(p.delivered) > 1 {
				return fmt.Sprintf("fold: delivered %v, more than one value", p.delivered)
			}
			if len(p.delivered) == 1 && p.delivered[0] != full && !(ended && p.delivered[0] == want) {
				return fmt.Sprintf("fold: delivered %v after %d of %v were accepted (input ended: %v); the fold of the input is %d (a partial accumulator is not a prefix of the uncancelled result)", p.delivered, accepted, sc.In[0], ended, want)
			}
			if final && (len(p.delivered) != 1 || p.delivered[0] != full) {
				return fmt.Sprintf("fold: closed after delivering %v, expected [%d]", p.delivered, full)
			}
			return ""
		}
		e.ports = []*port{p}
		return nil
	case "forEach":
		p := donePort("done", pipe.ForEach(ctx, ro, liftF(e, func(x int) int { return x })))
		p.validate = allOrNothing("forEach", []int{})
		e.ports = []*port{p}
		return callsOnce(len(sc.In[0]))
	case "void":
		p := donePort("done", pipe.Void(ctx, ro))
		p.validate = allOrNothing("void", []int{})
		e.ports = []*port{p}
		return func() string {
			e.mu.Lock()
			acc := e.accepted[0]
			e.mu.Unlock()
			if acc != len(sc.In[0]) || len(e.in[0]) != 0 {
				return fmt.Sprintf("void: %d of %d elements drained", acc-len(e.in[0]), len(sc.In[0]))
			}
			return ""
		}
	case "join":
		ins := make([]<-chan int, nIn)
		for i := range ins {
			ins[i] = e.in[i]
		}
		aliased := sc.N > 0 && nIn >= 2 // the same channel handed to Join twice: two copiers share one input
		if aliased {
			ins[nIn-1] = e.in[0]
		}
		p := intPort("join", pipe.Join(ctx, ins...))
		// the caller re-uses its slice of channels once Join has returned
		for i := range ins {
			ins[i] = nil
		}
		if aliased {
			all := append([]int{}, sc.In[0]...)
			for i := 1; i < nIn-1; i++ {
				all = append(all, sc.In[i]...)
			}
			mv := e.multisetValidator("join (one channel passed twice)", all, false)
			p.validate = func(p *port, final bool) string {
				if m := mv(p, false); m != "" {
					return m
				}
				if final {
					// the last declared input is never read: only inputs 0..k-2 count
					for i := 0; i < nIn-1; i++ {
						if !e.closedIn[i] {
							return fmt.Sprintf("join: output closed while input %d was still open", i)
						}
					}
					if len(p.delivered) != len(all) {
						return fmt.Sprintf("join (one channel passed twice): closed after delivering %v (sorted), inputs carried %v", sorted(p.delivered), sorted(all))
					}
				}
				return ""
			}
			e.ports = []*port{p}
			return nil
		}
		p.validate = func(p *port, final bool) string {
			// elements are tagged input*1000+seq: per-input subsequences must be prefixes of what was accepted
			per := make([][]int, nIn)
			for _, v := range p.delivered {
				i := v / 1000
				if i < 0 || i >= nIn {
					return fmt.Sprintf("join delivered %d which no input carries", v)
				}
				per[i] = append(per[i], v)
			}
			for i := range per {
				if !isPrefix(per[i], sc.In[i]) {
					return fmt.Sprintf("join: elements of input %d arrived as %v, sent as %v (lost, duplicated or reordered)", i, per[i], sc.In[i])
				}
			}
			if final {
				for i := range per {
					if !e.closedIn[i] {
						return fmt.Sprintf("join: output closed while input %d was still open", i)
					}
					if len(per[i]) != len(sc.In[i]) {
						return fmt.Sprintf("join: output closed having delivered %v of input %d = %v", per[i], i, sc.In[i])
					}
				}
			}
			return ""
		}
		e.ports = []*port{p}
		return nil
	case "throttle":
		p := intPort("out", pipe.Throttling(ctx, ro, max(sc.Ops, 1), time.Duration(max(sc.Interval, 1))*sc.unit()))
		p.validate = listValidator("throttling", sc.In[0])
		e.ports = []*port{p}
		return nil
	case "unfold":
		var f pipe.F[int, int] = liftF(e, sc.step)
		out, exx := pipe.Unfold(ctx, sc.Caps0(), sc.Seed, f)
		// seed, f(seed), ... ; under lift the first failing application ends the stream
		seqn := []int{}
		finite := false
		x := sc.Seed
		for k := 0; k < 400; k++ {
			seqn = append(seqn, x)
			if sc.Mode == "lift" && e.fails(x) {
				finite = true
				break
			}
			x = sc.step(x)
		}
		p := intPort("out", out)
		q := e.errPort("err", exx)
		if finite {
			p.validate = listValidator("unfold(fail-fast)", seqn)
			q.validate = listValidator("unfold errors", []int{seqn[len(seqn)-1]})
		} else {
			p.validate = func(p *port, final bool) string {
				if final {
					return fmt.Sprintf("unfold: output closed although the context was never cancelled and no application failed (delivered %v)", p.delivered)
				}
				if !isPrefix(p.delivered, seqn) && len(p.delivered) <= len(seqn) {
					return fmt.Sprintf("unfold: delivered %v, the successive sequence is %v...", p.delivered, seqn[:min(len(seqn), len(p.delivered)+2)])
				}
				return ""
			}
			q.validate = func(q *port, final bool) string {
				if len(q.delivered) > 0 {
					return fmt.Sprintf("unfold: errors %v from a function that never fails", q.delivered)
				}
				if final {
					return "unfold: error channel closed although the context was never cancelled"
				}
				return ""
			}
		}
		e.ports = []*port{p, q}
		return nil
	case "emit":
		var f pipe.F[int, int] = liftF(e, sc.emitf)
		freq := time.Duration(max(sc.Freq, 1)) * sc.unit()
		if sc.Freq < 0 {
			freq = time.Duration(sc.Freq+1) * sc.unit() // -1: no pause at all, -2: a negative duration (both are "do not wait" for time.Sleep)
		}
		out, exx := pipe.Emit(ctx, sc.Caps0(), freq, f)
		vals, errs := []int{}, []int{}
		finite := false
		for i := 0; i < 400; i++ {
			if sc.Mode != "pure" && e.fails(i) {
				errs = append(errs, i)
				if sc.Mode == "lift" {
					finite = true
					break
				}
				continue
			}
			vals = append(vals, sc.emitf(i))
		}
		p := intPort("out", out)
		q := e.errPort("err", exx)
		if finite {
			p.validate = listValidator("emit(fail-fast) values", vals)
			q.validate = listValidator("emit(fail-fast) errors", errs)
		} else {
			inf := func(what string, want []int) func(p *port, final bool) string {
				return func(p *port, final bool) string {
					if final {
						return fmt.Sprintf("emit: %s channel closed although the context was never cancelled", what)
					}
					if len(p.delivered) <= len(want) && !isPrefix(p.delivered, want) {
						return fmt.Sprintf("emit: %s delivered %v, expected sequence %v...", what, p.delivered, want[:min(len(want), len(p.delivered)+2)])
					}
					return ""
				}
			}
			p.validate = inf("values", vals)
			q.validate = inf("errors", errs)
		}
		e.ports = []*port{p, q}
		return nil
	}
	panic("unknown stage " + sc.Stage)
}

// Caps0 is the capacity parameter of the generator stages.
func (sc *Scenario) Caps0() int {
	if len(sc.Caps) > 0 {
		return sc.Caps[0]
	}
	return 0
}

func (sc *Scenario) generator() bool { return sc.Stage == "unfold" || sc.Stage == "emit" }
func (sc *Scenario) timed() bool     { return sc.generator() || sc.Stage == "throttle" }

// run executes the scenario; it must be called inside a bubble.
func run(sc *Scenario, diag bool) (res Result) {
	e := &env{sc: sc, calls: map[int]int{}, errs: map[int]*stageErr{}, envStop: make(chan struct{}), start: time.Now(), gated: sc.Gated}
	e.ctx, e.cancel = newCtx(sc)
	if sc.PreCancel {
		e.cancelled = true
		e.cancel()
	}
	post := build(e)
	var twin *env
	var twinPost func() string
	if sc.Twin && !sc.timed() && len(sc.In) > 0 {
		t2 := *sc
		t2.Script, t2.PreCancel, t2.Gated, t2.Prefill, t2.NoFinish, t2.Twin, t2.PrefillAll = nil, false, false, 0, false, false, false
		t2.In = nil
		for i, in := range sc.In {
			shifted := make([]int, len(in))
			for j, x := range in {
				shifted[j] = x + 500
				if sc.Stage == "fork.fold" {
					shifted[j] = x // the carrier encodings of C10 are not closed under a shift; cross-talk shows in the folded value
				}
				if sc.Stage == "join" {
					shifted[j] = i*1000 + 500 + j
				}
			}
			t2.In = append(t2.In, shifted)
		}
		t2.Fail = nil
		for _, f := range sc.Fail {
			t2.Fail = append(t2.Fail, f+500)
		}
		twin = &env{sc: &t2, calls: map[int]int{}, errs: map[int]*stageErr{}, envStop: e.envStop, start: e.start}
		twin.ctx, twin.cancel = context.WithCancel(context.Background())
		twinPost = build(twin)
		for i := range twin.in {
			twin.closedIn[i] = true
			twin.next[i] = len(t2.In[i])
			twin.hand(i, t2.In[i], true)
		}
		defer twin.cancel()
	}
	fail := func(m string) Result {
		// release everything the harness owns so that the bubble can end
		res.Msg = m
		e.cancel()
		close(e.envStop)
		synctest.Wait()
		time.Sleep(e.horizon())
		return res
	}

	idle := 0
	if sc.timed() {
		idle = 3 * max(sc.Interval, sc.Freq, 1)
	}
	synctest.Wait()
	for _, m := range sc.Script {
		wasCancelled := e.cancelled
		blocked := e.backpressure()
		if msg := e.do(m); msg != "" {
			return fail(msg)
		}
		if !wasCancelled && e.cancelled && blocked {
			res.CancelBlocked = true
		}
		synctest.Wait()
		if e.backpressure() {
			res.Backpressure = true
		}
		if sc.Par > 0 && e.inflight() > sc.Par {
			return fail(fmt.Sprintf("%d user-function calls in flight with %d workers", e.inflight(), sc.Par))
		}
	}
	res.MaxInflight, res.Reordered = e.maxInflight, e.reordered
	e.openGates()
	if twin != nil {
		// the independent second instance must complete as if it were alone, whatever happened to the first
		if msg := twin.fair(idle, nil); msg != "" {
			return fail("twin instance (own input, own context): " + msg)
		}
		for _, p := range twin.ports {
			if !p.closed {
				return fail(fmt.Sprintf("twin instance (own input, own context, never cancelled): %q does not close; delivered %v", p.name, p.delivered))
			}
		}
		if twinPost != nil {
			if msg := twinPost(); msg != "" {
				return fail("twin instance (own input, own context): " + msg)
			}
		}
	}

	if !e.cancelled && !sc.NoFinish && sc.generator() {
		// generators run until cancelled: a fair consumer takes N deliveries (or sees both channels close under fail-fast)
		got := func() bool {
			n := 0
			for _, p := range e.ports {
				n += len(p.delivered)
			}
			return n >= sc.N
		}
		if msg := e.fair(idle, got); msg != "" {
			return fail(msg)
		}
		if !got() && !e.allClosed() {
			return fail(fmt.Sprintf("stuck: %s stopped producing after %d values and %d errors although the context is not cancelled and the consumer is ready", sc.Stage, len(e.ports[0].delivered), len(e.ports[1].delivered)))
		}
	}
	if !e.cancelled && !sc.NoFinish && !sc.generator() {
		// completion phase A: hand over everything, inputs stay open
		for i := range e.in {
			if !e.closedIn[i] && e.next[i] < len(sc.In[i]) {
				e.hand(i, sc.In[i][e.next[i]:], false)
				e.next[i] = len(sc.In[i])
			}
		}
		if msg := e.fair(idle, nil); msg != "" {
			return fail(msg)
		}
		if e.backpressure() {
			res.Backpressure = true
		}
		if msg := e.openPhaseCheck(); msg != "" {
			return fail(msg)
		}
		// completion phase B: close the inputs, everything must drain and close
		for i := range e.in {
			if !e.closedIn[i] {
				e.closedIn[i] = true
				e.hand(i, nil, true)
			}
		}
		if msg := e.fair(idle, nil); msg != "" {
			return fail(msg)
		}
		for _, p := range e.ports {
			if !p.closed {
				return fail(fmt.Sprintf("stuck: inputs closed, every output drained by a fair consumer, but %q never closes (delivered %v); nothing can move any more in this schedule\n%s", p.name, p.delivered, summarize(census())))
			}
		}
		if post != nil {
			if msg := post(); msg != "" {
				return fail(msg)
			}
		}
		// no cancel yet: the stage's goroutines must be gone already (a throttling stage may keep its pacer)
		synctest.Wait()
		if sc.Stage == "throttle" || diag {
			if gs := census(); len(gs) > 0 && !(sc.Stage == "throttle" && len(gs) == 1) {
				return fail("after normal completion (inputs closed, outputs drained, context NOT cancelled) goroutines of the stage are still alive:\n" + summarize(gs))
			}
		} else {
			// leave the context uncancelled: if a goroutine of the stage is still alive the bubble cannot end,
			// which Exec reports (and re-runs with the census switched on for the details)
			close(e.envStop)
			synctest.Wait()
			for _, p := range e.ports {
				res.Received += len(p.delivered)
			}
			return res
		}
	}

	// cancel (if the script did not) and close the inputs; nobody receives from now on
	e.cancelled = true
	e.cancel()
	close(e.envStop)
	synctest.Wait()
	for i := range e.in {
		e.mu.Lock()
		done := e.closedCh[i]
		e.mu.Unlock()
		if !done {
			e.mu.Lock()
			e.closedCh[i] = true
			e.mu.Unlock()
			close(e.in[i])
		}
	}
	synctest.Wait()
	time.Sleep(e.horizon())
	synctest.Wait()
	if diag {
		if gs := census(); len(gs) > 0 {
			res.Msg = "context cancelled and all inputs closed, nobody receives: goroutines of the stage do not exit:\n" + summarize(gs)
			return res
		}
	}
	for _, p := range e.ports {
		for k := 0; !p.closed && k < 100000; k++ {
			prog, msg := e.recv(p)
			if msg != "" {
				res.Msg = msg
				return res
			}
			if !prog {
				break
			}
		}
		if !p.closed {
			res.Msg = fmt.Sprintf("after cancel and close of all inputs %q is empty but still open (drained %v)", p.name, p.delivered)
			return res
		}
	}
	for _, p := range e.ports {
		res.Received += len(p.delivered)
	}
	return res
}

// horizon: virtual time after which a cancelled timer-driven stage must have noticed the cancel.  Emit may still
// win its send arm while the output buffer has room, so the horizon covers 4*capacity+32 periods (value and error buffer).
func (e *env) horizon() time.Duration {
	return time.Duration((32+4*e.sc.Caps0())*max(e.sc.Interval, e.sc.Freq, 1)) * e.sc.unit()
}

// backpressure: at this quiescent point some producer is blocked or some input buffer is full.
func (e *env) backpressure() bool {
	for i := range e.in {
		if e.pending(i) {
			return true
		}
		if cap(e.in[i]) > 0 && len(e.in[i]) == cap(e.in[i]) {
			return true
		}
	}
	return false
}

// openPhaseCheck: all elements handed over, inputs still open, fair consumer settled.
// Stages that emit per element must have delivered everything already; Take/TakeWhile must
// have closed once their result is complete, without waiting for the input to end.
func (e *env) openPhaseCheck() string {
	sc := e.sc
	if sc.errPred() {
		return "" // nothing is stated about which elements pass a predicate that returns errors
	}
	switch sc.Stage {
	case "take":
		p := e.ports[0]
		if sc.N <= len(sc.In[0]) && !p.closed {
			return fmt.Sprintf("take %d: all %d input elements offered and the input still open, delivered %v, but the output is not closed (the stage waits for more input than it may consume)", sc.N, len(sc.In[0]), p.delivered)
		}
	case "map", "fmap":
		if (sc.Mode == "lift" || sc.Mode == "liftf") && !sc.StdErr {
			failing := false
			for _, x := range sc.In[0] {
				if e.fails(x) {
					failing = true
				}
			}
			for _, p := range e.ports {
				if failing && !p.closed {
					return fmt.Sprintf("fail-fast %s: a failing element was offered, but %q is not closed while the input stays open (delivered %v)", sc.Stage, p.name, p.delivered)
				}
			}
		}
	case "takeWhile":
		p := e.ports[0]
		stops := false
		for _, x := range sc.In[0] {
			if !sc.pred(x) {
				stops = true
			}
		}
		if stops && !p.closed {
			return fmt.Sprintf("takeWhile: a failing element was offered, delivered %v, but the output is not closed while the input stays open", p.delivered)
		}
	case "join":
		// every input has its own copier: with a fair consumer everything offered comes out while the inputs stay open
		total := 0
		for i := range sc.In {
			if sc.N > 0 && len(sc.In) >= 2 && i == len(sc.In)-1 {
				continue // aliased scenario: the last declared channel was never handed to Join
			}
			total += e.next[i] // an input the script closed early keeps the rest of its elements
		}
		if p := e.ports[0]; len(p.delivered) != total && !p.closed {
			return fmt.Sprintf("join of %d inputs: all %d elements were offered and the consumer is ready, but only %d came out while the inputs stay open (an input is not being served); delivered %v", len(sc.In), total, len(p.delivered), p.delivered)
		}
	case "filter", "partition":
		if sc.Par == 0 {
			n := 0
			for _, p := range e.ports {
				n += len(p.delivered)
			}
			want := len(sc.In[0])
			if sc.Stage == "filter" {
				want = 0
				for _, x := range sc.In[0] {
					if sc.pred(x) {
						want++
					}
				}
			}
			if n != want {
				return fmt.Sprintf("%s: all %d elements were offered and the consumer is ready, but %d of the expected %d came out while the input stays open", sc.Stage, len(sc.In[0]), n, want)
			}
		}
	}
	return ""
}

// prefill puts the first elements of input 0 into its buffer before the stage is created.
func (e *env) prefill() {
	if e.sc.PrefillAll {
		// every input holds as much of its elements as its buffer takes before the stage is created
		for i := range e.in {
			n := min(cap(e.in[i]), len(e.sc.In[i]))
			if e.sc.Stage == "join" && e.sc.N > 0 && len(e.in) >= 2 && i == len(e.in)-1 {
				n = 0 // aliased scenario: the last declared channel is never handed to Join
			}
			for k := 0; k < n; k++ {
				e.in[i] <- e.sc.In[i][k]
			}
			e.next[i], e.accepted[i] = n, n
		}
		return
	}
	n := min(e.sc.Prefill, cap(e.in[0]), len(e.sc.In[0]))
	for k := 0; k < n; k++ {
		e.in[0] <- e.sc.In[0][k]
	}
	e.next[0], e.accepted[0] = n, n
}
