package c18

import (
	"fmt"
	"sort"
	"strconv"
	"strings"
	"testing"
	"time"

	"github.com/fogfish/golem/maplike"
	"github.com/fogfish/golem/maplike/skiplist"
	"github.com/fogfish/golem/pure/ord"
	"pgregory.net/rapid"
	"verif/harness/bubble"
	"verif/harness/vk"
)

func TestMain(m *testing.M) { vk.Main(m) }

type Op struct {
	K   string `json:"k"` // put get remove
	Key int    `json:"key"`
	Val int    `json:"val,omitempty"`
}

// Scenario: one history, one key order, executed once per height seed in H.
// A height seed is the virtual-clock offset (ns) at which skiplist.New reads time.Now()
// inside a synctest bubble: the bubble clock starts at a fixed instant, so the node
// heights are a pure function of (H, history).
type Scenario struct {
	Order    string `json:"order"` // int | rev | str
	U        int    `json:"u"`     // key universe size
	Ops      []Op   `json:"ops"`
	ShowMask int    `json:"showMask,omitempty"` // 0: the printed form is read after every step; else only after step i when bit i%30 is set
	Ops2     []Op   `json:"ops2,omitempty"`     // history of a SECOND list living in the same process, executed step-interleaved with the first
	H        []int  `json:"h"`
}

var strKeys = []string{"a", "100%", "melon", "aa", "%v", "li", "ab", "b", "n", "a%sb", "ba", "kiwi", "c", "é", "z", "A", "%d%%", "Z", "0", "zz", "\xff", "日", "il", "zucchini"}

func genOp(t *rapid.T) Op {
	k := rapid.SampledFrom([]string{"put", "put", "put", "get", "remove", "remove"}).Draw(t, "k")
	op := Op{K: k, Key: rapid.IntRange(0, 255).Draw(t, "key")}
	if k == "put" {
		op.Val = rapid.IntRange(0, 99).Draw(t, "val")
	}
	return op
}

func gen(t *rapid.T) Scenario {
	sc := Scenario{
		Order: rapid.SampledFrom([]string{"int", "rev", "str"}).Draw(t, "order"),
		U:     rapid.IntRange(3, 12).Draw(t, "u"),
	}
	maxOps := 60
	if rapid.IntRange(0, 9).Draw(t, "long") == 0 {
		maxOps = 200
	}
	if rapid.IntRange(0, 39).Draw(t, "manyKeys") == 0 && sc.Order != "str" {
		// hundreds of live keys: the upper levels of the list come into play
		sc.U = rapid.IntRange(50, 300).Draw(t, "uBig")
		maxOps = 600
	}
	sc.Ops = rapid.SliceOfN(rapid.Custom(genOp), 1, maxOps).Draw(t, "ops")
	sc.H = rapid.SliceOfNDistinct(rapid.IntRange(0, 1<<30), 3, 3, rapid.ID[int]).Draw(t, "h")
	if rapid.IntRange(0, 3).Draw(t, "second") == 0 {
		sc.Ops2 = rapid.SliceOfN(rapid.Custom(genOp), 1, 40).Draw(t, "ops2")
	}
	if rapid.IntRange(0, 2).Draw(t, "sparsePrints") == 0 {
		sc.ShowMask = rapid.IntRange(1, 1<<30-1).Draw(t, "showMask")
	}
	return sc
}

// parsed printed form
type node struct {
	key     string
	fingers []string
}

func parse(s string) ([]node, string) {
	lines := strings.Split(strings.TrimRight(s, "\n"), "\n")
	if len(lines) < 2 || !strings.HasPrefix(lines[0], "--- SkipList") {
		return nil, "unexpected header in printed form"
	}
	var out []node
	for _, l := range lines[1:] {
		if !strings.HasPrefix(l, "{") || !strings.HasSuffix(l, "}") {
			return nil, fmt.Sprintf("unexpected line %q in printed form", l)
		}
		body := l[1 : len(l)-1]
		i := strings.Index(body, "\t| ")
		if i < 0 {
			return nil, fmt.Sprintf("unexpected line %q in printed form", l)
		}
		n := node{key: body[:i]}
		n.fingers = strings.Fields(body[i+3:])
		out = append(out, n)
	}
	return out, ""
}

type world[K comparable] struct {
	name  string
	cmp   ord.Ord[K]
	key   func(int) K
	show  func(K) string
	model map[K]int
	list  maplike.MapLike[K, int]
	other func(step int) string // executes one step of an independent second list
}

func runOne[K comparable](sc Scenario, w *world[K]) string {
	less := func(a, b K) bool { return w.cmp.Compare(a, b) == ord.LT }
	universe := make([]K, sc.U)
	shown := map[string]K{}
	for i := range universe {
		universe[i] = w.key(i)
		shown[w.show(universe[i])] = universe[i]
	}
	for i, op := range sc.Ops {
		if w.other != nil && i < len(sc.Ops2) {
			// one step of the second list between two steps of the first
			if m := w.other(i); m != "" {
				return "second list in the same process: " + m
			}
		}
		k := w.key(op.Key % sc.U)
		at := fmt.Sprintf("step %d %s(%s)", i, op.K, w.show(k))
		switch op.K {
		case "put":
			r := w.list.Put(k, op.Val)
			if r == nil {
				return at + ": Put returned nil"
			}
			w.model[k] = op.Val
		case "get":
			if got, want := w.list.Get(k), w.model[k]; got != want {
				return fmt.Sprintf("%s = %d, map model says %d", at, got, want)
			}
		case "remove":
			got, want := w.list.Remove(k), w.model[k]
			delete(w.model, k)
			if got != want {
				return fmt.Sprintf("%s = %d, map model says %d", at, got, want)
			}
		}
		// map equivalence on the whole universe after every step
		for _, u := range universe {
			if got, want := w.list.Get(u), w.model[u]; got != want {
				return fmt.Sprintf("after %s: Get(%s) = %d, map model says %d", at, w.show(u), got, want)
			}
		}
		// printed form: after every step, or - when the scenario says so - only after the steps of its mask and the last
		// one (a printed form remembered between steps must not survive a change it was not asked about)
		if sc.ShowMask != 0 && i != len(sc.Ops)-1 && sc.ShowMask>>(uint(i)%30)&1 == 0 {
			continue
		}
		str, ok := w.list.(fmt.Stringer)
		if !ok {
			return "skip list is not a fmt.Stringer"
		}
		nodes, perr := parse(str.String())
		if perr != "" {
			return "after " + at + ": " + perr
		}
		live := nodes[1:] // nodes[0] is the head sentinel
		want := make([]K, 0, len(w.model))
		for k := range w.model {
			want = append(want, k)
		}
		sort.Slice(want, func(i, j int) bool { return less(want[i], want[j]) })
		if len(live) != len(want) {
			return fmt.Sprintf("after %s: printed form lists %d keys %v, model has %d", at, len(live), keysOf(live), len(want))
		}
		for j, n := range live {
			if n.key != w.show(want[j]) {
				return fmt.Sprintf("after %s: printed keys %v, model keys in order %v", at, keysOf(live), showAll(w, want))
			}
			for _, f := range n.fingers {
				if f == "nil" {
					continue
				}
				fk, known := shown[f]
				if !known {
					return fmt.Sprintf("after %s: node %s has a forward pointer to unknown key %q", at, n.key, f)
				}
				if !less(want[j], fk) {
					return fmt.Sprintf("after %s: node %s has a forward pointer to %s which is not larger", at, n.key, f)
				}
				if _, alive := w.model[fk]; !alive {
					return fmt.Sprintf("after %s: node %s has a forward pointer to removed key %s", at, n.key, f)
				}
			}
		}
		for _, f := range nodes[0].fingers {
			if f == "nil" {
				continue
			}
			fk, known := shown[f]
			if _, alive := w.model[fk]; !known || !alive {
				return fmt.Sprintf("after %s: head has a forward pointer to %q which is not a live key", at, f)
			}
		}
	}
	return ""
}

// secondList returns a stepper over an independent list with its own map model.
func secondList(sc Scenario) func(int) string {
	l2 := skiplist.New[int, int](ord.Int)
	m2 := map[int]int{}
	return func(i int) string {
		op := sc.Ops2[i]
		k := op.Key%7 + 100
		switch op.K {
		case "put":
			l2.Put(k, op.Val+1000)
			m2[k] = op.Val + 1000
		case "get":
			if got := l2.Get(k); got != m2[k] {
				return fmt.Sprintf("step %d Get(%d) = %d, model %d", i, k, got, m2[k])
			}
		case "remove":
			got := l2.Remove(k)
			want := m2[k]
			delete(m2, k)
			if got != want {
				return fmt.Sprintf("step %d Remove(%d) = %d, model %d", i, k, got, want)
			}
		}
		for u := 100; u < 107; u++ {
			if got := l2.Get(u); got != m2[u] {
				return fmt.Sprintf("after step %d: Get(%d) = %d, model %d", i, u, got, m2[u])
			}
		}
		return ""
	}
}

func keysOf(ns []node) []string {
	out := []string{}
	for _, n := range ns {
		out = append(out, n.key)
	}
	return out
}

func showAll[K comparable](w *world[K], ks []K) []string {
	out := []string{}
	for _, k := range ks {
		out = append(out, w.show(k))
	}
	return out
}

// Run executes the history once per height seed, each in its own bubble.
func Run(t *testing.T, sc Scenario) string {
	if sc.U < 1 {
		sc.U = 1
	}
	for _, h := range sc.H {
		var msg string
		b := bubble.Run(t, func() {
			time.Sleep(time.Duration(h)) // virtual: positions the clock that seeds the node heights
			defer func() {
				if r := recover(); r != nil {
					msg = fmt.Sprintf("panic: %v", r)
				}
			}()
			switch sc.Order {
			case "int":
				w := &world[int]{cmp: ord.Int, key: func(i int) int { return i*7 - 20 }, show: strconv.Itoa, model: map[int]int{}}
				w.list = skiplist.New[int, int](w.cmp)
				if len(sc.Ops2) > 0 {
					w.other = secondList(sc)
				}
				msg = runOne(sc, w)
			case "rev":
				w := &world[int]{cmp: ord.From[int](func(a, b int) ord.Ordering { return ord.Int.Compare(b, a) }),
					key: func(i int) int { return i*7 - 20 }, show: strconv.Itoa, model: map[int]int{}}
				w.list = skiplist.New[int, int](w.cmp)
				if len(sc.Ops2) > 0 {
					w.other = secondList(sc)
				}
				msg = runOne(sc, w)
			default:
				w := &world[string]{cmp: ord.String, key: func(i int) string { return strKeys[i%len(strKeys)] }, show: func(s string) string { return s }, model: map[string]int{}}
				w.list = skiplist.New[string, int](w.cmp)
				if len(sc.Ops2) > 0 {
					w.other = secondList(sc)
				}
				msg = runOne(sc, w)
			}
		})
		if msg == "" {
			msg = b
		}
		if msg != "" {
			return fmt.Sprintf("[order=%s height-seed=%d] %s", sc.Order, h, msg)
		}
	}
	return ""
}

func shape(sc Scenario) (bool, []string) {
	present := map[int]bool{}
	removed := map[int]bool{}
	nt := false
	maxLive := 0
	var last = -1 << 30
	for _, op := range sc.Ops {
		k := op.Key % sc.U
		switch op.K {
		case "put":
			if removed[k] || present[k] || k < last {
				nt = true // re-insert after remove, overwrite, or descending insert
			}
			last = k
			present[k] = true
		case "get":
			if removed[k] {
				nt = true
			}
		case "remove":
			if present[k] {
				removed[k] = true
				delete(present, k)
			}
		}
		if len(present) > maxLive {
			maxLive = len(present)
		}
	}
	cl := []string{"order=" + sc.Order}
	switch {
	case maxLive >= 8:
		cl = append(cl, "max-live>=8")
	case maxLive >= 4:
		cl = append(cl, "max-live 4..7")
	default:
		cl = append(cl, "max-live<4")
	}
	if len(sc.Ops) > 60 {
		cl = append(cl, "long-history")
	}
	return nt, cl
}

func check(t *testing.T, ft interface{ Fatalf(string, ...any) }, sc Scenario) {
	msg := Run(t, sc)
	nt, cl := shape(sc)
	vk.Record(sc, nt, cl...)
	if msg != "" {
		vk.Fail("C18", "TestC18", "", sc, msg)
		ft.Fatalf("%s", msg)
	}
}

func TestC18(t *testing.T) {
	rapid.Check(t, func(rt *rapid.T) { check(t, rt, gen(rt)) })
}

// TestC18Enum: every history up to length L over 3 keys x 2 values (12 operations).
func TestC18Enum(t *testing.T) {
	L, seeds := 4, []int{1}
	if vk.Tier() == "thorough" {
		L, seeds = 5, []int{1, 77777, 123456789}
	}
	var alphabet []Op
	for k := 0; k < 3; k++ {
		alphabet = append(alphabet, Op{K: "put", Key: k, Val: 1}, Op{K: "put", Key: k, Val: 2}, Op{K: "get", Key: k}, Op{K: "remove", Key: k})
	}
	shard, shards := vk.IntEnv("VERIF_SHARD", 0), vk.IntEnv("VERIF_SHARDS", 1)
	n := 0
	var rec func(prefix []Op)
	rec = func(prefix []Op) {
		if len(prefix) == L {
			// a history of length L checks all its prefixes on the way (invariants run after every step)
			if n%shards == shard {
				for _, order := range []string{"int", "rev", "str"} {
					check(t, t, Scenario{Order: order, U: 3, Ops: append([]Op{}, prefix...), H: seeds})
				}
			}
			n++
			return
		}
		for _, op := range alphabet {
			rec(append(prefix, op))
		}
	}
	rec(nil)
	vk.Exhaustive(fmt.Sprintf("all Put/Get/Remove histories of length <= %d over 3 keys x 2 values, x 3 key orders x %d height seeds", L, len(seeds)))
}

func TestReplay(t *testing.T) {
	var sc Scenario
	ok, err := vk.LoadReplay(&sc)
	if !ok {
		t.Skip("no VERIF_REPLAY")
	}
	if err != nil {
		t.Fatalf("bad replay file: %v", err)
	}
	if msg := Run(t, sc); msg != "" {
		t.Fatalf("%s", msg)
	}
}
