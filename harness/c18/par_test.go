package c18

import (
	"fmt"
	"strconv"
	"testing"

	"github.com/fogfish/golem/maplike/skiplist"
	"github.com/fogfish/golem/pure/ord"
	"pgregory.net/rapid"
	"verif/harness/vk"
)

// Independent lists used from different goroutines, each with a purely sequential history of its own and its own
// model: nothing of one list (a level generator, a scratch buffer, a node pool) may be shared with another.
// Built with the race detector; node heights come from the real clock here (no bubble).
type ParScenario struct {
	Parts []Scenario `json:"parts"`
}

func runPlain(sc Scenario) (msg string) {
	if sc.U < 1 {
		sc.U = 1
	}
	switch sc.Order {
	case "int":
		w := &world[int]{cmp: ord.Int, key: func(i int) int { return i*7 - 20 }, show: strconv.Itoa, model: map[int]int{}}
		w.list = skiplist.New[int, int](w.cmp)
		return runOne(sc, w)
	case "rev":
		w := &world[int]{cmp: ord.From[int](func(a, b int) ord.Ordering { return ord.Int.Compare(b, a) }),
			key: func(i int) int { return i*7 - 20 }, show: strconv.Itoa, model: map[int]int{}}
		w.list = skiplist.New[int, int](w.cmp)
		return runOne(sc, w)
	}
	w := &world[string]{cmp: ord.String, key: func(i int) string { return strKeys[i%len(strKeys)] }, show: func(s string) string { return s }, model: map[string]int{}}
	w.list = skiplist.New[string, int](w.cmp)
	return runOne(sc, w)
}

func runPar(ps ParScenario) string {
	return vk.Par(len(ps.Parts), func(i int) string {
		for rep := 0; rep < 30; rep++ {
			if m := runPlain(ps.Parts[i]); m != "" {
				return fmt.Sprintf("[order=%s, repetition %d] %s", ps.Parts[i].Order, rep, m)
			}
		}
		return ""
	})
}

func TestC18Par(t *testing.T) {
	rapid.Check(t, func(rt *rapid.T) {
		var ps ParScenario
		for k := rapid.IntRange(2, 8).Draw(rt, "goroutines"); k > 0; k-- {
			sc := gen(rt)
			sc.Ops2, sc.H = nil, nil
			ps.Parts = append(ps.Parts, sc)
		}
		vk.Journal("C18", "TestC18Par", ps)
		msg := runPar(ps)
		vk.Record(ps, len(ps.Parts) >= 2, "parallel-independent-lists", "goroutines="+strconv.Itoa(len(ps.Parts)))
		if msg != "" {
			vk.Fail("C18", "TestC18Par", "", ps, msg)
			rt.Fatalf("%s", msg)
		}
	})
}

func TestReplayPar(t *testing.T) {
	var ps ParScenario
	ok, err := vk.LoadReplay(&ps)
	if !ok {
		t.Skip("no VERIF_REPLAY")
	}
	if err != nil {
		t.Fatalf("bad replay file: %v", err)
	}
	for a := 0; a < 50; a++ {
		if msg := runPar(ps); msg != "" {
			t.Fatalf("attempt %d: %s", a+1, msg)
		}
	}
}
