// Package ducts: run-time generated duct programs (engine E5, property C16).
package ducts

import "github.com/fogfish/golem/duct"

// Account is the named struct type of the universe.
type Account struct {
	ID string
	N  int
}

type key2 struct{ src, b int }
type key3 struct{ src, b, c int }

var (
	typeOfTab [16]func() string
	fromTab   = map[int]func(tag int) any{}
	applyTab  = map[key2]func(m any, v duct.Visitor) error{}
	yieldTab  = map[key2]func(tag int, m any) any{}
	unitTab   = map[key2]func(m any) any{}
	wrapTab   = map[key2]func(m any) any{} // key: (src, B) for a morphism currently at []B
	joinTab   = map[key3]func(tag int, m any) any{}
	liftTab   = map[key3]func(tag int, m any) any{} // key: (src, B, C) for a morphism currently at []B
)

func level(t int) int { return t % 4 }

// The lifted values handed to the combinators come from three origins (Step.Org, carried in the tag as org*1000+step):
//
//	0  duct.L2[A, B](step) / duct.L1[A](step) at the step's own type parameters
//	1  a value lifted at OTHER type parameters and re-typed by a plain Go conversion (F and T are structs over `any`)
//	2  the zero value of duct.F[A, B] / duct.T[A] (payload nil)
//
// In all three the type names recorded in the AST are those of the type parameters of the step.
func mkF[A, B any](enc int) duct.F[A, B] {
	switch org, step := enc/1000, enc%1000; org {
	case 1:
		return duct.F[A, B](duct.L2[string, []bool](step))
	case 2:
		var f duct.F[A, B]
		return f
	default:
		return duct.L2[A, B](step)
	}
}

func mkT[A any](enc int) duct.T[A] {
	switch org, step := enc/1000, enc%1000; org {
	case 1:
		return duct.T[A](duct.L1[[]string](step))
	case 2:
		var t duct.T[A]
		return t
	default:
		return duct.L1[A](step)
	}
}

// payload the visitor must see for a step of the given origin
func payloadTag(step, org int) int {
	if org == 2 {
		return -999
	}
	return step
}
