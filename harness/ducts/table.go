// Package ducts: run-time generated duct programs (engine E5, property C16).
package ducts

import "github.com/fogfish/golem/duct"

// Account is the named struct type of the universe.
type Account struct {
	ID string
	N  int
}

type key2 struct{ src, b int }
type key3 struct{ src, b, c int }

var (
	typeOfTab [16]func() string
	fromTab   = map[int]func(tag int) any{}
	applyTab  = map[key2]func(m any, v duct.Visitor) error{}
	yieldTab  = map[key2]func(tag int, m any) any{}
	unitTab   = map[key2]func(m any) any{}
	wrapTab   = map[key2]func(m any) any{} // key: (src, B) for a morphism currently at []B
	joinTab   = map[key3]func(tag int, m any) any{}
	liftTab   = map[key3]func(tag int, m any) any{} // key: (src, B, C) for a morphism currently at []B
)

func level(t int) int { return t % 4 }
