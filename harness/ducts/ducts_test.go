package ducts

import (
	"errors"
	"fmt"
	"reflect"
	"strconv"
	"testing"

	"github.com/fogfish/golem/duct"
	"pgregory.net/rapid"
	"verif/harness/vk"
)

func TestMain(m *testing.M) { vk.Main(m) }

// Step of a program.  The first step is always From.  C is the target type of Join/LiftF.
// Raw is reduced modulo the well-typed choices available at that point by the generator;
// scenarios store the resolved steps, so a replay needs no generator.
type Step struct {
	Op  string `json:"op"` // from join liftf wrapf unit yield
	C   int    `json:"c,omitempty"`
	Org int    `json:"org,omitempty"` // origin of the lifted value handed to the step (table.go: 0 L1/L2, 1 converted, 2 zero value)
}

type Scenario struct {
	Src   int    `json:"src"` // source type (index into the universe)
	Steps []Step `json:"steps"`
	// Other: a second program built step-interleaved with this one (state kept outside the morphism values would show)
	Other *Scenario `json:"other,omitempty"`
}

// ---- model: written from the statement, independent of duct's append/unit

type mnode struct {
	kind     string // morphism seq map from yield
	a, b     string // type names
	tag      int
	root     bool
	deferred bool
	kids     []*mnode
}

type event struct {
	Enter    bool
	Kind     string
	Depth    int
	A, B     string
	Tag      int
	Root     bool
	Deferred bool
	Kids     int
}

func (e event) String() string {
	d := "leave"
	if e.Enter {
		d = "enter"
	}
	return fmt.Sprintf("%s %s@%d a=%q b=%q tag=%d root=%v deferred=%v kids=%d", d, e.Kind, e.Depth, e.A, e.B, e.Tag, e.Root, e.Deferred, e.Kids)
}

// typecheck returns the type after each step, or an error for an ill-typed program.
func typecheck(sc Scenario) ([]int, error) {
	if len(sc.Steps) == 0 || sc.Steps[0].Op != "from" {
		return nil, errors.New("program must start with from")
	}
	if _, ok := fromTab[sc.Src]; !ok {
		return nil, errors.New("unknown source type")
	}
	cur := sc.Src
	types := []int{cur}
	for _, st := range sc.Steps[1:] {
		switch st.Op {
		case "join":
			cur = st.C
		case "liftf":
			if level(cur) == 0 {
				return nil, errors.New("liftf on a non-slice")
			}
			cur = st.C
		case "wrapf":
			if level(cur) == 0 {
				return nil, errors.New("wrapf on a non-slice")
			}
			cur--
		case "unit":
			if level(cur) == 3 {
				return nil, errors.New("unit beyond the universe")
			}
			cur++
		case "yield":
			cur = 12 // Void
		default:
			return nil, errors.New("bad op " + st.Op)
		}
		if cur < 0 || cur >= 16 {
			return nil, errors.New("type out of universe")
		}
		types = append(types, cur)
	}
	return types, nil
}

// model builds the expected tree with an explicit stack of open contexts.
func model(sc Scenario, types []int) *mnode {
	root := &mnode{kind: "morphism", root: true, deferred: true}
	stack := []*mnode{root}
	top := func() *mnode { return stack[len(stack)-1] }
	add := func(n *mnode) { top().kids = append(top().kids, n) }
	add(&mnode{kind: "from", a: typeNames[sc.Src], tag: payloadTag(0, sc.Steps[0].Org)})
	for i, st := range sc.Steps[1:] {
		tag := payloadTag(i+1, st.Org)
		cur := types[i] // type before this step
		switch st.Op {
		case "join":
			add(&mnode{kind: "map", a: typeNames[cur], b: typeNames[st.C], tag: tag})
		case "liftf":
			inner := &mnode{kind: "seq", deferred: true}
			inner.kids = append(inner.kids, &mnode{kind: "map", a: typeNames[cur-1], b: typeNames[st.C], tag: tag})
			add(inner)
			stack = append(stack, inner)
		case "wrapf":
			inner := &mnode{kind: "seq", deferred: true}
			add(inner)
			stack = append(stack, inner)
		case "unit":
			if len(stack) > 1 {
				top().deferred = false
				stack = stack[:len(stack)-1]
			}
		case "yield":
			add(&mnode{kind: "yield", a: typeNames[cur], tag: tag})
		}
	}
	return root
}

func (n *mnode) trace(depth int, out *[]event) {
	e := event{Enter: true, Kind: n.kind, Depth: depth, A: n.a, B: n.b, Tag: n.tag, Root: n.root, Deferred: n.deferred, Kids: len(n.kids)}
	*out = append(*out, e)
	for _, k := range n.kids {
		k.trace(depth+1, out)
	}
	e.Enter = false
	*out = append(*out, e)
}

// ---- recording / failing visitor

type visitor struct {
	events []event
	failAt int // -1: never
	err    error
	seqs   []seenSeq // sequence nodes handed to the enter callbacks (for re-visits)
}

type seenSeq struct {
	node  duct.AstSeq
	depth int
	at    int // index of the enter event
}

func (v *visitor) rec(e event) error {
	v.events = append(v.events, e)
	if len(v.events)-1 == v.failAt {
		return v.err
	}
	return nil
}

func tagOf(x any) int {
	if i, ok := x.(int); ok {
		return i
	}
	return -999
}

func seqEvent(enter bool, kind string, depth int, n duct.AstSeq) event {
	return event{Enter: enter, Kind: kind, Depth: depth, Root: n.Root, Deferred: n.Deferred, Kids: len(n.Seq)}
}
func (v *visitor) OnEnterMorphism(d int, n duct.AstSeq) error {
	v.seqs = append(v.seqs, seenSeq{n, d, len(v.events)})
	return v.rec(seqEvent(true, "morphism", d, n))
}
func (v *visitor) OnLeaveMorphism(d int, n duct.AstSeq) error {
	return v.rec(seqEvent(false, "morphism", d, n))
}
func (v *visitor) OnEnterSeq(d int, n duct.AstSeq) error {
	v.seqs = append(v.seqs, seenSeq{n, d, len(v.events)})
	return v.rec(seqEvent(true, "seq", d, n))
}
func (v *visitor) OnLeaveSeq(d int, n duct.AstSeq) error { return v.rec(seqEvent(false, "seq", d, n)) }
func (v *visitor) OnEnterMap(d int, n duct.AstMap) error {
	return v.rec(event{Enter: true, Kind: "map", Depth: d, A: n.TypeA, B: n.TypeB, Tag: tagOf(n.F)})
}
func (v *visitor) OnLeaveMap(d int, n duct.AstMap) error {
	return v.rec(event{Enter: false, Kind: "map", Depth: d, A: n.TypeA, B: n.TypeB, Tag: tagOf(n.F)})
}
func (v *visitor) OnEnterFrom(d int, n duct.AstFrom) error {
	return v.rec(event{Enter: true, Kind: "from", Depth: d, A: n.Type, Tag: tagOf(n.Source)})
}
func (v *visitor) OnLeaveFrom(d int, n duct.AstFrom) error {
	return v.rec(event{Enter: false, Kind: "from", Depth: d, A: n.Type, Tag: tagOf(n.Source)})
}
func (v *visitor) OnEnterYield(d int, n duct.AstYield) error {
	return v.rec(event{Enter: true, Kind: "yield", Depth: d, A: n.Type, Tag: tagOf(n.Target)})
}
func (v *visitor) OnLeaveYield(d int, n duct.AstYield) error {
	return v.rec(event{Enter: false, Kind: "yield", Depth: d, A: n.Type, Tag: tagOf(n.Target)})
}

// build applies the real combinators; every intermediate morphism is used exactly once.
func build(sc Scenario, types []int) any {
	m := fromTab[sc.Src](1000 * sc.Steps[0].Org)
	for i, st := range sc.Steps[1:] {
		tag := i + 1 + 1000*st.Org
		cur := types[i]
		switch st.Op {
		case "join":
			m = joinTab[key3{sc.Src, cur, st.C}](tag, m)
		case "liftf":
			m = liftTab[key3{sc.Src, cur - 1, st.C}](tag, m)
		case "wrapf":
			m = wrapTab[key2{sc.Src, cur - 1}](m)
		case "unit":
			m = unitTab[key2{sc.Src, cur}](m)
		case "yield":
			m = yieldTab[key2{sc.Src, cur}](tag, m)
		}
	}
	return m
}

// Run: "" if the visit of the built morphism equals the model's trace, with a recording visitor
// and with a visitor failing at every callback position.
func Run(sc Scenario) (msg string) {
	defer func() {
		if r := recover(); r != nil {
			msg = fmt.Sprintf("panic: %v", r)
		}
	}()
	types, err := typecheck(sc)
	if err != nil {
		return "" // ill-typed scenario (only possible in a hand-edited replay file): nothing to check
	}
	for i, f := range typeOfTab {
		if got := f(); got != typeNames[i] {
			return fmt.Sprintf("duct.TypeOf of universe type %d = %q, want %q", i, got, typeNames[i])
		}
	}
	var want []event
	model(sc, types).trace(0, &want)
	apply := applyTab[key2{sc.Src, types[len(types)-1]}]

	rec := &visitor{failAt: -1}
	if err := apply(build(sc, types), rec); err != nil {
		return fmt.Sprintf("Apply with a never-failing visitor returned %v", err)
	}
	if !reflect.DeepEqual(rec.events, want) {
		return "callback trace differs from the model:\n" + diff(rec.events, want)
	}
	// well-bracketedness of the real trace (implied by equality with the model's DFS, asserted directly too)
	var stack []event
	for _, e := range rec.events {
		if e.Enter {
			if len(stack) > 0 && e.Depth != stack[len(stack)-1].Depth+1 {
				return "child not one level deeper than its parent: " + e.String()
			}
			stack = append(stack, e)
		} else {
			if len(stack) == 0 {
				return "leave without enter: " + e.String()
			}
			top := stack[len(stack)-1]
			stack = stack[:len(stack)-1]
			top.Enter = false
			if top != e {
				return "leave does not match the innermost open enter: " + e.String()
			}
		}
	}
	if len(stack) != 0 {
		return "enter without leave"
	}
	// a node handed to a callback can be visited on its own, from any starting depth (Ast.Apply(depth, v) is the public
	// entry point): the sub-visit reports the same callbacks as the corresponding stretch of the full visit, shifted
	// to the starting depth - the root stays the one root morphism, a nested context stays a nested context
	for _, ss := range rec.seqs {
		end := ss.at
		for open := 0; ; end++ {
			if rec.events[end].Enter {
				open++
			} else {
				open--
			}
			if open == 0 {
				break
			}
		}
		for _, d0 := range []int{0, ss.depth + 3} {
			sub := &visitor{failAt: -1}
			if err := ss.node.Apply(d0, sub); err != nil {
				return fmt.Sprintf("sub-visit of the sequence entered at callback %d returned %v", ss.at, err)
			}
			wantSub := append([]event{}, want[ss.at:end+1]...)
			for i := range wantSub {
				wantSub[i].Depth += d0 - ss.depth
			}
			if !reflect.DeepEqual(sub.events, wantSub) {
				return fmt.Sprintf("sub-visit of the sequence node entered at callback %d (depth %d in the full visit), started at depth %d, differs from that stretch of the full visit shifted to depth %d:\n%s", ss.at, ss.depth, d0, d0, diff(sub.events, wantSub))
			}
		}
	}
	// the same morphism value visited again gives the same trace (Apply does not consume the AST)
	rec2 := &visitor{failAt: -1}
	if err := apply(build(sc, types), rec2); err != nil || !reflect.DeepEqual(rec2.events, want) {
		return "second build+visit differs from the first"
	}
	if sc.Other != nil {
		if m := runInterleaved(sc, *sc.Other); m != "" {
			return m
		}
	}
	for k := range want {
		e := fmt.Errorf("E(%d)", k)
		fv := &visitor{failAt: k, err: e}
		got := apply(build(sc, types), fv)
		if got != e {
			return fmt.Sprintf("visitor failing at callback %d (%s): Apply returned %v, want that error", k, want[k], got)
		}
		if len(fv.events) != k+1 {
			return fmt.Sprintf("visitor failing at callback %d (%s): visit went on for %d callbacks, want %d", k, want[k], len(fv.events), k+1)
		}
		if !reflect.DeepEqual(fv.events, want[:k+1]) {
			return fmt.Sprintf("visitor failing at callback %d: trace prefix differs", k)
		}
	}
	return ""
}

// stepper applies the steps of one program one at a time.
type stepper struct {
	sc    Scenario
	types []int
	m     any
	i     int
}

func newStepper(sc Scenario, types []int) *stepper {
	return &stepper{sc: sc, types: types, m: fromTab[sc.Src](1000 * sc.Steps[0].Org)}
}

func (s *stepper) done() bool { return s.i >= len(s.sc.Steps)-1 }

func (s *stepper) step() {
	st := s.sc.Steps[1+s.i]
	tag, cur := s.i+1+1000*st.Org, s.types[s.i]
	switch st.Op {
	case "join":
		s.m = joinTab[key3{s.sc.Src, cur, st.C}](tag, s.m)
	case "liftf":
		s.m = liftTab[key3{s.sc.Src, cur - 1, st.C}](tag, s.m)
	case "wrapf":
		s.m = wrapTab[key2{s.sc.Src, cur - 1}](s.m)
	case "unit":
		s.m = unitTab[key2{s.sc.Src, cur}](s.m)
	case "yield":
		s.m = yieldTab[key2{s.sc.Src, cur}](tag, s.m)
	}
	s.i++
}

// runInterleaved builds two programs alternately, step by step, and checks both traces.
func runInterleaved(a, b Scenario) string {
	ta, err := typecheck(a)
	tb, err2 := typecheck(b)
	if err != nil || err2 != nil {
		return ""
	}
	sa, sb := newStepper(a, ta), newStepper(b, tb)
	for !sa.done() || !sb.done() {
		if !sa.done() {
			sa.step()
		}
		if !sb.done() {
			sb.step()
		}
	}
	for which, x := range []struct {
		sc Scenario
		ty []int
		m  any
	}{{a, ta, sa.m}, {b, tb, sb.m}} {
		var want []event
		model(x.sc, x.ty).trace(0, &want)
		rec := &visitor{failAt: -1}
		if err := applyTab[key2{x.sc.Src, x.ty[len(x.ty)-1]}](x.m, rec); err != nil {
			return fmt.Sprintf("two programs built alternately: visiting program %d returned %v", which+1, err)
		}
		if !reflect.DeepEqual(rec.events, want) {
			return fmt.Sprintf("two programs built alternately: trace of program %d differs from its model:\n%s", which+1, diff(rec.events, want))
		}
	}
	return ""
}

func diff(got, want []event) string {
	s := ""
	for i := 0; i < max(len(got), len(want)); i++ {
		g, w := "<none>", "<none>"
		if i < len(got) {
			g = got[i].String()
		}
		if i < len(want) {
			w = want[i].String()
		}
		mark := "  "
		if g != w {
			mark = "!="
		}
		s += fmt.Sprintf("%s %-90s | %s\n", mark, g, w)
	}
	return s
}

// ---- generator: draws only well-typed next steps

func choices(cur int, all []int) []Step {
	var out []Step
	for _, c := range all {
		out = append(out, Step{Op: "join", C: c})
	}
	if level(cur) > 0 {
		for _, c := range all {
			out = append(out, Step{Op: "liftf", C: c})
		}
		out = append(out, Step{Op: "wrapf"})
	}
	if level(cur) < 3 {
		out = append(out, Step{Op: "unit"})
	}
	out = append(out, Step{Op: "yield"})
	return out
}

var allTypes = []int{0, 1, 2, 3, 4, 5, 6, 7, 8, 9, 10, 11, 12, 13, 14, 15}

func gen(t *rapid.T) Scenario {
	sc := gen1(t)
	if rapid.IntRange(0, 3).Draw(t, "interleaved") == 0 {
		o := gen1(t)
		sc.Other = &o
	}
	return sc
}

func gen1(t *rapid.T) Scenario {
	sc := Scenario{Src: rapid.SampledFrom(sourceTypes).Draw(t, "src"), Steps: []Step{{Op: "from"}}}
	if rapid.IntRange(0, 9).Draw(t, "oddSource") == 0 {
		sc.Steps[0].Org = rapid.IntRange(1, 2).Draw(t, "org")
	}
	n := rapid.IntRange(0, 14).Draw(t, "len")
	cur := sc.Src
	for i := 0; i < n; i++ {
		// class first, then a member: keeps nesting-heavy programs frequent
		var st Step
		switch k := rapid.IntRange(0, 9).Draw(t, "class"); {
		case k <= 2 && level(cur) > 0:
			st = Step{Op: "liftf", C: rapid.SampledFrom(allTypes).Draw(t, "c")}
			if rapid.Bool().Draw(t, "wrap") {
				st = Step{Op: "wrapf"}
			}
		case k <= 4 && level(cur) < 3:
			st = Step{Op: "unit"}
		case k == 5:
			st = Step{Op: "yield"}
		default:
			c := rapid.SampledFrom(allTypes).Draw(t, "c")
			if rapid.IntRange(0, 2).Draw(t, "slicey") > 0 && level(c) == 0 {
				c += rapid.IntRange(1, 2).Draw(t, "lvl") // prefer slice targets so contexts can be opened next
			}
			st = Step{Op: "join", C: c}
		}
		if st.Op != "unit" && st.Op != "wrapf" && rapid.IntRange(0, 5).Draw(t, "odd") == 0 {
			st.Org = rapid.IntRange(1, 2).Draw(t, "org")
		}
		sc.Steps = append(sc.Steps, st)
		switch st.Op {
		case "join", "liftf":
			cur = st.C
		case "wrapf":
			cur--
		case "unit":
			cur++
		case "yield":
			cur = 12
		}
	}
	return sc
}

func stats(sc Scenario) (bool, []string) {
	depth, maxDepth, closed := 0, 0, 0
	for _, st := range sc.Steps {
		switch st.Op {
		case "liftf", "wrapf":
			depth++
			maxDepth = max(maxDepth, depth)
		case "unit":
			if depth > 0 {
				depth--
				closed++
			}
		}
	}
	cl := []string{"nesting=" + strconv.Itoa(min(maxDepth, 4)), "len=" + strconv.Itoa(len(sc.Steps)/4*4) + "+"}
	if closed > 0 && depth > 0 {
		cl = append(cl, "one-closed-one-open")
	}
	if closed > 0 {
		cl = append(cl, "has-unit-closing")
	}
	return (closed > 0 && depth > 0) || maxDepth >= 2, cl
}

func check(t interface{ Fatalf(string, ...any) }, sc Scenario) {
	msg := Run(sc)
	nt, cl := stats(sc)
	vk.Record(sc, nt, cl...)
	if msg != "" {
		vk.Fail("C16", "TestC16", "", sc, msg)
		t.Fatalf("%s", msg)
	}
}

func propC16(t *rapid.T) { check(t, gen(t)) }

func TestC16(t *testing.T) { rapid.Check(t, propC16) }

func FuzzC16(f *testing.F) {
	f.Add([]byte{})
	f.Add([]byte("\x01\x02\x03\x04\x05\x06\x07\x08"))
	f.Fuzz(rapid.MakeFuzz(propC16))
}

// TestC16Enum: all well-typed programs up to a length bound over a 6-type sub-universe.
func TestC16Enum(t *testing.T) {
	sub := []int{0, 1, 2, 4, 5, 12} // int []int [][]int Account []Account Void
	L := 4
	if vk.Tier() == "thorough" {
		L = 5
	}
	shard, shards := vk.IntEnv("VERIF_SHARD", 0), vk.IntEnv("VERIF_SHARDS", 1)
	n := 0
	inSub := func(c int) bool {
		for _, s := range sub {
			if s == c {
				return true
			}
		}
		return false
	}
	var rec func(sc Scenario, cur int)
	rec = func(sc Scenario, cur int) {
		if n%shards == shard {
			check(t, sc)
		}
		n++
		if len(sc.Steps) > L {
			return
		}
		for _, st := range choices(cur, sub) {
			next := cur
			switch st.Op {
			case "join", "liftf":
				next = st.C
			case "wrapf":
				next = cur - 1
			case "unit":
				next = cur + 1
			case "yield":
				next = 12
			}
			if !inSub(next) {
				continue
			}
			steps := append(append([]Step{}, sc.Steps...), st)
			rec(Scenario{Src: sc.Src, Steps: steps}, next)
		}
	}
	rec(Scenario{Src: 1, Steps: []Step{{Op: "from"}}}, 1)
	vk.Exhaustive(fmt.Sprintf("all %d well-typed programs From + up to %d steps over the sub-universe {int, []int, [][]int, Account, []Account, Void}, x every failing callback position", n, L))
}

func TestReplay(t *testing.T) {
	var sc Scenario
	ok, err := vk.LoadReplay(&sc)
	if !ok {
		t.Skip("no VERIF_REPLAY")
	}
	if err != nil {
		t.Fatalf("bad replay file: %v", err)
	}
	if msg := Run(sc); msg != "" {
		t.Fatalf("%s", msg)
	}
}
