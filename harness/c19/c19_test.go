package c19

import (
	"fmt"
	"reflect"
	"strconv"
	"testing"

	"github.com/fogfish/golem/pure/monoid"
	"github.com/fogfish/golem/seq"
	"github.com/fogfish/golem/seq/list"
	"github.com/fogfish/golem/seq/slice"
	"pgregory.net/rapid"
	"verif/harness/vk"
)

func TestMain(m *testing.M) { vk.Main(m) }

// Op is one step of a script over a register file of sequences.
// R is interpreted modulo the number of registers existing at that moment.
type Op struct {
	Kind  string `json:"k"` // new cons tail head length isEmpty fold
	R     int    `json:"r,omitempty"`
	X     int    `json:"x,omitempty"`
	Xs    []int  `json:"xs,omitempty"`
	Spare int    `json:"spare,omitempty"` // new: hidden capacity behind the variadic slice
	E     int    `json:"e,omitempty"`     // fold: the monoid's empty element
	// Long/Stride: new with Long generated elements 1+(i*Stride)%97 (sizes around powers of two up to 8193) instead of Xs
	Long   int  `json:"long,omitempty"`
	Stride int  `json:"stride,omitempty"`
	Last   bool `json:"last,omitempty"` // fold: of the newest register
}

type Scenario struct {
	Ops []Op `json:"ops"`
}

func genOp(t *rapid.T) Op {
	k := rapid.SampledFrom([]string{"new", "cons", "cons", "cons", "tail", "tail", "head", "length", "isEmpty", "fold"}).Draw(t, "k")
	op := Op{Kind: k, R: rapid.IntRange(0, 63).Draw(t, "r")}
	switch k {
	case "new":
		op.Xs = rapid.SliceOfN(rapid.IntRange(1, 99), 0, 5).Draw(t, "xs")
		op.Spare = rapid.IntRange(0, 3).Draw(t, "spare")
		switch rapid.IntRange(0, 19).Draw(t, "big") {
		case 0:
			op.Spare = rapid.IntRange(1100, 2500).Draw(t, "hugeSpare") // a short window of a big buffer
		case 1:
			n := rapid.IntRange(1020, 1100).Draw(t, "longNew") // more elements than any plausible block size
			k := rapid.IntRange(1, 13).Draw(t, "stride")
			op.Xs = make([]int, n)
			for i := range op.Xs {
				op.Xs[i] = 1 + (i*k)%97
			}
		}
	case "cons":
		op.X = rapid.IntRange(100, 999).Draw(t, "x")
	case "fold":
		op.E = rapid.IntRange(0, 9).Draw(t, "e")
	}
	return op
}

func gen(t *rapid.T) Scenario {
	sc := Scenario{Ops: rapid.SliceOfN(rapid.Custom(genOp), 1, 24).Draw(t, "ops")}
	if rapid.IntRange(0, 59).Draw(t, "powerOfTwo") == 0 {
		// a sequence whose length sits at a power of two (block sizes, chunked or parallel folds), folded several times
		n := rapid.SampledFrom([]int{64, 64, 256, 256, 1024, 1024, 4096, 4096, 8192, 16384, 32768}).Draw(t, "pow") + rapid.IntRange(-1, 1).Draw(t, "off")
		at := rapid.IntRange(0, len(sc.Ops)).Draw(t, "at")
		ins := []Op{{Kind: "new", Long: n, Stride: rapid.IntRange(1, 13).Draw(t, "stride")}}
		for k := 0; k < 4; k++ {
			ins = append(ins, Op{Kind: "fold", Last: true, E: rapid.IntRange(0, 9).Draw(t, "e")})
		}
		sc.Ops = append(sc.Ops[:at:at], append(ins, sc.Ops[at:]...)...)
	}
	return sc
}

func (op Op) elements() []int {
	if op.Long <= 0 {
		return op.Xs
	}
	xs := make([]int, op.Long)
	for i := range xs {
		xs[i] = 1 + (i*max(op.Stride, 1))%97
	}
	return xs
}

type reg struct {
	l list.Seq[int]
	s slice.Seq[int]
	m []int
}

// elems extracts the element list through the public trait (Head/Tail/IsEmpty only).
func elems[F any](tr seq.Seq[F, int], s F, bound int) (out []int, err string) {
	defer func() {
		if r := recover(); r != nil {
			err = fmt.Sprintf("panic while walking the sequence: %v", r)
		}
	}()
	out = []int{}
	for !tr.IsEmpty(s) {
		if len(out) > bound {
			return out, "sequence does not end (IsEmpty never true)"
		}
		out = append(out, tr.Head(s))
		s = tr.Tail(s)
	}
	return out, ""
}

func fresh(xs []int, spare int) []int {
	b := make([]int, len(xs), len(xs)+spare)
	copy(b, xs)
	return b
}

// Run executes the script on both implementations and the [][]int model.
func Run(sc Scenario) (msg string) {
	defer func() {
		if r := recover(); r != nil {
			msg = fmt.Sprintf("panic: %v", r)
		}
	}()
	lt := list.Trait[int]("seq.int")
	st := slice.Trait[int]("seq.int")
	var regs []reg
	for i, op := range sc.Ops {
		at := fmt.Sprintf("step %d (%s)", i, op.Kind)
		if len(regs) == 0 && op.Kind != "new" {
			op = Op{Kind: "new"} // empty sequence
		}
		switch op.Kind {
		case "new":
			xs := op.elements()
			m := append([]int{}, xs...)
			r := reg{l: lt.New(fresh(xs, op.Spare)...), s: st.New(fresh(xs, op.Spare)...), m: m}
			if lt.Length(r.l) != len(m) || st.Length(r.s) != len(m) {
				return fmt.Sprintf("%s: New(%v) has length list=%d slice=%d, want %d", at, m, lt.Length(r.l), st.Length(r.s), len(m))
			}
			regs = append(regs, r)
		case "cons":
			src := regs[op.R%len(regs)]
			m := append([]int{op.X}, src.m...)
			r := reg{l: lt.Cons(op.X, src.l), s: st.Cons(op.X, src.s), m: m}
			if lt.Head(r.l) != op.X || st.Head(r.s) != op.X {
				return fmt.Sprintf("%s: Head(Cons(%d, %v)) = list %d / slice %d", at, op.X, src.m, lt.Head(r.l), st.Head(r.s))
			}
			if lt.Length(r.l) != len(src.m)+1 || st.Length(r.s) != len(src.m)+1 {
				return fmt.Sprintf("%s: Length(Cons(x, %v)) = list %d / slice %d, want %d", at, src.m, lt.Length(r.l), st.Length(r.s), len(src.m)+1)
			}
			regs = append(regs, r)
		case "tail":
			src := regs[op.R%len(regs)]
			if len(src.m) == 0 {
				continue // Tail of an empty sequence is outside the statement
			}
			regs = append(regs, reg{l: lt.Tail(src.l), s: st.Tail(src.s), m: src.m[1:]})
		case "head":
			src := regs[op.R%len(regs)]
			if len(src.m) == 0 {
				continue
			}
			if lt.Head(src.l) != src.m[0] || st.Head(src.s) != src.m[0] {
				return fmt.Sprintf("%s: Head(%v) = list %d / slice %d", at, src.m, lt.Head(src.l), st.Head(src.s))
			}
		case "length":
			src := regs[op.R%len(regs)]
			if lt.Length(src.l) != len(src.m) || st.Length(src.s) != len(src.m) {
				return fmt.Sprintf("%s: Length(%v) = list %d / slice %d", at, src.m, lt.Length(src.l), st.Length(src.s))
			}
		case "isEmpty":
			src := regs[op.R%len(regs)]
			if lt.IsEmpty(src.l) != (len(src.m) == 0) || st.IsEmpty(src.s) != (len(src.m) == 0) {
				return fmt.Sprintf("%s: IsEmpty(%v) = list %v / slice %v", at, src.m, lt.IsEmpty(src.l), st.IsEmpty(src.s))
			}
		case "fold":
			src := regs[op.R%len(regs)]
			if op.Last {
				src = regs[len(regs)-1]
			}
			// non-commutative, non-associative, with an Empty that is not neutral: order and start are observable
			mi := monoid.FromOp(op.E+1, func(a, b int) int { return (a*31 + b) % 1000003 })
			want := op.E + 1
			for _, x := range src.m {
				want = (want*31 + x) % 1000003
			}
			gl := seq.Foldable[list.Seq[int], int]{Seq: lt}.Fold(mi, src.l)
			gs := seq.Foldable[slice.Seq[int], int]{Seq: st}.Fold(mi, src.s)
			if gl != want || gs != want {
				return fmt.Sprintf("%s: Fold(%v) from empty=%d = list %d / slice %d, left fold gives %d", at, src.m, op.E+1, gl, gs, want)
			}
		}
		// persistence: every register still holds its elements, on both implementations
		for ri, r := range regs {
			el, e1 := elems[list.Seq[int]](lt, r.l, len(r.m)+1)
			es, e2 := elems[slice.Seq[int]](st, r.s, len(r.m)+1)
			if e1 != "" || e2 != "" {
				return fmt.Sprintf("after %s: register %d (model %v): list: %s slice: %s", at, ri, r.m, e1, e2)
			}
			want := append([]int{}, r.m...)
			if !reflect.DeepEqual(el, want) || !reflect.DeepEqual(es, want) {
				return fmt.Sprintf("after %s: register %d holds list=%v slice=%v, model %v", at, ri, el, es, want)
			}
			if lt.Length(r.l) != len(r.m) || st.Length(r.s) != len(r.m) {
				return fmt.Sprintf("after %s: register %d Length list=%d slice=%d, model %d", at, ri, lt.Length(r.l), st.Length(r.s), len(r.m))
			}
		}
	}
	return ""
}

// shape replays the script on the model only, to classify it.
func shape(sc Scenario) (nontrivial bool, cl []string) {
	var lens []int
	branch := map[int]int{}
	for _, op := range sc.Ops {
		if len(lens) == 0 && op.Kind != "new" {
			op = Op{Kind: "new"}
		}
		switch op.Kind {
		case "new":
			lens = append(lens, len(op.elements()))
			if op.Spare > 0 {
				cl = append(cl, "new-with-spare-capacity")
			}
		case "cons":
			r := op.R % len(lens)
			branch[r]++
			if lens[r] >= 1 {
				nontrivial = true
			}
			lens = append(lens, lens[r]+1)
		case "tail":
			r := op.R % len(lens)
			if lens[r] == 0 {
				continue
			}
			branch[r]++
			if lens[r] >= 2 {
				nontrivial = true
			}
			lens = append(lens, lens[r]-1)
		}
	}
	for _, n := range branch {
		if n >= 2 {
			cl = append(cl, "register-extended-twice")
			break
		}
	}
	cl = append(cl, "ops="+strconv.Itoa(len(sc.Ops)/8*8)+"+")
	return
}

func check(t interface{ Fatalf(string, ...any) }, sc Scenario) {
	msg := Run(sc)
	nt, cl := shape(sc)
	vk.Record(sc, nt, cl...)
	if msg != "" {
		vk.Fail("C19", "TestC19", "", sc, msg)
		t.Fatalf("%s", msg)
	}
}

func propC19(t *rapid.T) { check(t, gen(t)) }

func TestC19(t *testing.T) { rapid.Check(t, propC19) }

func FuzzC19(f *testing.F) {
	f.Add([]byte{})
	f.Add([]byte("\x01\x02\x03\x04\x05\x06\x07\x08"))
	f.Fuzz(rapid.MakeFuzz(propC19))
}

// TestC19Enum enumerates every script of length <= L over a small alphabet.
func TestC19Enum(t *testing.T) {
	alphabet := []Op{
		{Kind: "new", Xs: []int{1, 2}, Spare: 2}, {Kind: "new"},
		{Kind: "cons", R: 0, X: 100}, {Kind: "cons", R: 1, X: 200},
		{Kind: "tail", R: 0}, {Kind: "tail", R: 1}, {Kind: "fold", R: 1, E: 3},
	}
	L := 5
	if vk.Tier() == "thorough" {
		L = 7
	}
	var rec func(prefix []Op)
	rec = func(prefix []Op) {
		if len(prefix) > 0 {
			check(t, Scenario{Ops: append([]Op{}, prefix...)})
		}
		if len(prefix) == L {
			return
		}
		for _, op := range alphabet {
			rec(append(prefix, op))
		}
	}
	rec(nil)
	vk.Exhaustive(fmt.Sprintf("all scripts of length <= %d over a 7-operation alphabet (New with spare capacity, New(), Cons/Tail on registers 0 and 1, Fold)", L))
}

func TestReplay(t *testing.T) {
	var sc Scenario
	ok, err := vk.LoadReplay(&sc)
	if !ok {
		t.Skip("no VERIF_REPLAY")
	}
	if err != nil {
		t.Fatalf("bad replay file: %v", err)
	}
	if msg := Run(sc); msg != "" {
		t.Fatalf("%s", msg)
	}
}
