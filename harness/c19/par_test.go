package c19

import (
	"strconv"
	"testing"

	"pgregory.net/rapid"
	"verif/harness/vk"
)

// Independent scenarios executed in different goroutines at the same time (race detector on): the values involved
// are sequential objects of their own; nothing of one may be shared with another.
type ParScenario struct {
	Parts []Scenario `json:"parts"`
}

func runPar(ps ParScenario) string {
	return vk.Par(len(ps.Parts), func(i int) string {
		for rep := 0; rep < 5; rep++ {
			if m := Run(ps.Parts[i]); m != "" {
				return m
			}
		}
		return ""
	})
}

func TestC19Par(t *testing.T) {
	rapid.Check(t, func(rt *rapid.T) {
		var ps ParScenario
		for k := rapid.IntRange(2, 8).Draw(rt, "goroutines"); k > 0; k-- {
			ps.Parts = append(ps.Parts, gen(rt))
		}
		vk.Journal("C19", "TestC19Par", ps)
		msg := runPar(ps)
		vk.Record(ps, true, "parallel-independent-instances", "goroutines="+strconv.Itoa(len(ps.Parts)))
		if msg != "" {
			vk.Fail("C19", "TestC19Par", "", ps, msg)
			rt.Fatalf("%s", msg)
		}
	})
}

func TestReplayPar(t *testing.T) {
	var ps ParScenario
	ok, err := vk.LoadReplay(&ps)
	if !ok {
		t.Skip("no VERIF_REPLAY")
	}
	if err != nil {
		t.Fatalf("bad replay file: %v", err)
	}
	for a := 0; a < 50; a++ {
		if msg := runPar(ps); msg != "" {
			t.Fatalf("attempt %d: %s", a+1, msg)
		}
	}
}
