package optdyn

import "os"

func getenv(k string) string { return os.Getenv(k) }
