// Package optdyn is engine E2: struct shapes that exist only at run time (reflect.StructOf), unfolded by
// the real hseq.unfold (through the verif-tagged hook) and focused by the real optics.NewLens /
// NewReflector, with reflect's own field addressing as the oracle.
package optdyn

import (
	"fmt"
	"reflect"
	"strings"
	"testing"
	"unsafe"

	"github.com/fogfish/golem/hseq"
	"github.com/fogfish/golem/optics"
	"pgregory.net/rapid"
	"verif/harness/optcheck"
	altut "verif/harness/optcheck/alt/ut"
	"verif/harness/optcheck/ut"
	"verif/harness/vk"
)

func TestMain(m *testing.M) { vk.Main(m) }

// Blob is the opaque container type: lenses only ever use *Blob as an address.
type Blob struct{ _ [0]byte }

// ---- static universe: every entry instantiates the generic API at one focus type

type dynLens struct {
	get  func(p *Blob) reflect.Value
	put  func(p *Blob, v reflect.Value) *Blob
	gett func(p any) reflect.Value
	putt func(p any, v reflect.Value) any
}

type utype struct {
	name string
	typ  reflect.Type
	mk   func(t hseq.Type[Blob], reflector bool) dynLens
	ft   func(seq hseq.Seq[Blob]) hseq.Type[Blob] // ForType[A]
}

func mk[A any](name string) utype {
	return utype{name: name, typ: reflect.TypeOf((*A)(nil)).Elem(),
		mk: func(t hseq.Type[Blob], reflector bool) dynLens {
			if reflector {
				r := optics.NewReflector[Blob, A](t)
				return dynLens{
					gett: func(p any) reflect.Value { a := r.Gett(p); return reflect.ValueOf(&a).Elem() },
					putt: func(p any, v reflect.Value) any { return r.Putt(p, *(*A)(v.Addr().UnsafePointer())) },
				}
			}
			l := optics.NewLens[Blob, A](t)
			return dynLens{
				get: func(p *Blob) reflect.Value { a := l.Get(p); return reflect.ValueOf(&a).Elem() },
				put: func(p *Blob, v reflect.Value) *Blob { return l.Put(p, *(*A)(v.Addr().UnsafePointer())) },
			}
		},
		ft: func(seq hseq.Seq[Blob]) hseq.Type[Blob] { return hseq.ForType[A](seq) },
	}
}

var universe = []utype{
	mk[bool]("bool"), mk[int8]("int8"), mk[int16]("int16"), mk[int32]("int32"), mk[int64]("int64"), mk[int]("int"),
	mk[uint8]("uint8"), mk[uint16]("uint16"), mk[uint32]("uint32"), mk[uint64]("uint64"), mk[uintptr]("uintptr"),
	mk[float32]("float32"), mk[float64]("float64"), mk[complex64]("complex64"), mk[complex128]("complex128"),
	mk[string]("string"), mk[[]byte]("[]byte"), mk[[]int]("[]int"), mk[[]string]("[]string"), mk[*int]("*int"), mk[*string]("*string"),
	mk[*ut.Pt]("*ut.Pt"), mk[map[string]int]("map[string]int"), mk[chan int]("chan int"), mk[func() int]("func() int"),
	mk[any]("any"), mk[error]("error"), mk[fmt.Stringer]("fmt.Stringer"),
	mk[[0]int]("[0]int"), mk[[3]byte]("[3]byte"), mk[[2]string]("[2]string"), mk[[5]int16]("[5]int16"), mk[[33]uint64]("[33]uint64"), mk[struct{}]("struct{}"),
	mk[ut.Pt]("ut.Pt"), mk[ut.MyStr]("ut.MyStr"), mk[ut.MyInt16]("ut.MyInt16"), mk[ut.MyInt]("ut.MyInt"), mk[ut.MyInt64]("ut.MyInt64"),
	mk[ut.MyBytes]("ut.MyBytes"), mk[ut.MyF32]("ut.MyF32"), mk[ut.MyF64]("ut.MyF64"), mk[ut.Labels]("ut.Labels"), mk[ut.MyMap]("ut.MyMap"),
	mk[ut.MyBool]("ut.MyBool"), mk[*ut.Buf]("*ut.Buf"), mk[ut.Tag]("ut.Tag"),
	mk[*altut.Pt]("*altut.Pt"), mk[[]altut.MyStr]("[]altut.MyStr"), mk[altut.Pt]("altut.Pt"), mk[[]ut.MyStr]("[]ut.MyStr"),
}

// ---- scenario: a shape spec (plain data) + which entry to focus + how

type FSpec struct {
	Name string  `json:"name"`
	Tag  string  `json:"tag,omitempty"`
	Kind string  `json:"kind"` // plain embed pembed
	T    int     `json:"t,omitempty"`
	Sub  []FSpec `json:"sub,omitempty"`
}

type Scenario struct {
	Fields    []FSpec `json:"fields"`
	Focus     int     `json:"focus"`     // entry index modulo the listing length
	Reflector bool    `json:"reflector"` // use NewReflector / Gett / Putt
	Lookup    string  `json:"lookup"`    // a key to look up (may be absent)
}

func genFields(t *rapid.T, depth int, used map[string]bool) []FSpec {
	n := rapid.IntRange(1, 6).Draw(t, "nfields")
	var out []FSpec
	for i := 0; i < n; i++ {
		c := rapid.IntRange(0, 7).Draw(t, "letter")
		name := string(rune('A' + c))
		if rapid.IntRange(0, 3).Draw(t, "unexported") == 0 {
			name = string(rune('a' + c))
		}
		if used[name] {
			name += fmt.Sprint(i)
		}
		used[name] = true
		f := FSpec{Name: name, Kind: "plain", T: rapid.IntRange(0, len(universe)-1).Draw(t, "type")}
		if k := rapid.IntRange(0, 9).Draw(t, "kind"); depth > 0 && k < 3 {
			f.Kind = "embed"
			if k == 2 {
				f.Kind = "pembed"
			}
			f.Name = "E" + strings.ToUpper(name[:1]) + fmt.Sprint(i) // an exported name that no plain field can have
			used[f.Name] = true
			f.Sub = genFields(t, depth-1, map[string]bool{})
		}
		switch rapid.IntRange(0, 9).Draw(t, "tag") {
		case 0:
			f.Tag = "k" + name
		case 1:
			f.Tag = ",omitempty"
		case 2:
			f.Tag = rapid.SampledFrom([]string{"A", "B", "a", "Bx"}).Draw(t, "collide")
		}
		out = append(out, f)
	}
	return out
}

func gen(t *rapid.T) Scenario {
	depth := rapid.SampledFrom([]int{0, 1, 2, 3, 3, 4}).Draw(t, "depth")
	return Scenario{Fields: genFields(t, depth, map[string]bool{}), Focus: rapid.IntRange(0, 63).Draw(t, "focus"),
		Reflector: rapid.Bool().Draw(t, "reflector"), Lookup: rapid.SampledFrom([]string{"A", "B", "a", "ka", "kB", "Bx", "zz"}).Draw(t, "lookup")}
}

func structOf(fs []FSpec) reflect.Type {
	var sf []reflect.StructField
	for _, f := range fs {
		x := reflect.StructField{Name: f.Name}
		if f.Name[0] >= 'a' && f.Name[0] <= 'z' {
			x.PkgPath = "verif/harness/optdyn"
		}
		if f.Tag != "" {
			x.Tag = reflect.StructTag(fmt.Sprintf("hseq:%q", f.Tag))
		}
		switch f.Kind {
		case "plain":
			x.Type = universe[f.T].typ
		case "embed":
			x.Type, x.Anonymous = structOf(f.Sub), true
		case "pembed":
			x.Type, x.Anonymous = reflect.PointerTo(structOf(f.Sub)), true
		}
		sf = append(sf, x)
	}
	return reflect.StructOf(sf)
}

// model entry: computed from the spec and from reflect's own addressing, never from hseq
type entry struct {
	name, key string
	typ, pure reflect.Type
	index     []int // FieldByIndex path
	via       bool
	depth     int
	ut        int // universe index of a plain field, -1 for embedded structs
}

func listing(fs []FSpec, typ reflect.Type, prefix []int, via bool, depth int, out *[]entry) {
	for i, f := range fs {
		ft := typ.Field(i).Type
		key := f.Name
		if k := strings.Split(f.Tag, ",")[0]; k != "" {
			key = k
		}
		pure := ft
		if pure.Kind() == reflect.Pointer {
			pure = pure.Elem()
		}
		idx := append(append([]int{}, prefix...), i)
		e := entry{name: f.Name, key: key, typ: ft, pure: pure, index: idx, via: via, depth: depth, ut: -1}
		if f.Kind == "plain" {
			e.ut = f.T
		}
		*out = append(*out, e)
		switch f.Kind {
		case "embed":
			listing(f.Sub, ft, idx, via, depth+1, out)
		case "pembed":
			listing(f.Sub, ft.Elem(), idx, true, depth+1, out)
		}
	}
}

const guard = 64

func panics(f func()) (p bool) {
	defer func() {
		if r := recover(); r != nil {
			if strings.HasPrefix(fmt.Sprintf("%T", r), "rapid.") || strings.HasPrefix(fmt.Sprintf("%T", r), "*rapid.") {
				panic(r)
			}
			p = true
		}
	}()
	f()
	return false
}

func hexOf(v reflect.Value) string {
	b := optcheck.BytesAt(v.Addr().UnsafePointer(), v.Type().Size())
	if len(b) > 24 {
		b = b[:24]
	}
	return fmt.Sprintf("%s{% x}", v.Type(), b)
}

// Run: "" when everything holds.
func Run(rt *rapid.T, sc Scenario) (msg string) {
	shape := structOf(sc.Fields)
	var want []entry
	listing(sc.Fields, shape, nil, false, 0, &want)
	seq := hseq.VerifUnfold[Blob](shape)
	// C03: the listing
	if len(seq) != len(want) {
		return fmt.Sprintf("unfold lists %d entries, the shape has %d", len(seq), len(want))
	}
	arenaT := reflect.StructOf([]reflect.StructField{
		{Name: "Pre", Type: reflect.TypeOf([guard]byte{})}, {Name: "V", Type: shape}, {Name: "Post", Type: reflect.TypeOf([guard]byte{})}})
	arena := reflect.New(arenaT).Elem()
	for i := 0; i < guard; i++ {
		arena.Field(0).Index(i).SetUint(0xA5)
		arena.Field(2).Index(i).SetUint(0x5A)
	}
	v := arena.Field(1)
	base := v.Addr().UnsafePointer()
	for i, e := range want {
		g := seq[i]
		switch {
		case g.Name != e.name:
			return fmt.Sprintf("entry %d is field %q, want %q", i, g.Name, e.name)
		case g.Type != e.typ:
			return fmt.Sprintf("entry %d (%s) has type %v, want %v", i, e.name, g.Type, e.typ)
		case g.PureType != e.pure:
			return fmt.Sprintf("entry %d (%s) has PureType %v, want %v", i, e.name, g.PureType, e.pure)
		case g.ID != i:
			return fmt.Sprintf("entry %q has ID %d at position %d", e.name, g.ID, i)
		case g.FieldKey() != e.key:
			return fmt.Sprintf("entry %d (%s) has key %q, want %q", i, e.name, g.FieldKey(), e.key)
		}
		if !e.via {
			real := uintptr(v.FieldByIndex(e.index).Addr().UnsafePointer()) - uintptr(base)
			if g.RootOffs+g.Offset != real {
				return fmt.Sprintf("entry %d (%s, depth %d): root offset %d + field offset %d != real offset %d", i, e.name, e.depth, g.RootOffs, g.Offset, real)
			}
		}
	}
	// lookups by name
	wantIdx := -1
	for i, e := range want {
		if e.key == sc.Lookup {
			wantIdx = i
			break
		}
	}
	got, ok := hseq.ForNameMaybe(seq, sc.Lookup)
	if ok != (wantIdx >= 0) || (ok && got.ID != wantIdx) {
		return fmt.Sprintf("ForNameMaybe(%q) = (entry %d, %v), the first entry with that key is %d", sc.Lookup, got.ID, ok, wantIdx)
	}
	if wantIdx < 0 {
		if !panics(func() { hseq.ForName(seq, sc.Lookup) }) {
			return fmt.Sprintf("ForName(%q) did not panic for an absent key", sc.Lookup)
		}
	} else if g := hseq.ForName(seq, sc.Lookup); g.ID != wantIdx {
		return fmt.Sprintf("ForName(%q) = entry %d, want %d", sc.Lookup, g.ID, wantIdx)
	}
	// lookup by type, for the type of the focused entry and for one absent type
	fi := sc.Focus % len(want)
	fe := want[fi]
	for ui, u := range universe {
		first := -1
		for i, e := range want {
			if e.typ == u.typ {
				first = i
				break
			}
		}
		if ui != fe.ut && ui != (sc.Focus*7)%len(universe) {
			continue
		}
		if first < 0 {
			if !panics(func() { u.ft(seq) }) {
				return fmt.Sprintf("ForType[%s] did not panic although no field has that type", u.name)
			}
		} else if g := u.ft(seq); g.ID != first {
			return fmt.Sprintf("ForType[%s] = entry %d, the first field of that type is %d", u.name, g.ID, first)
		}
	}
	if fe.ut < 0 || fe.via {
		return "" // embedded struct as a whole / behind a pointer: covered by the generated-program tier
	}
	// C02: every other focus type must be refused for this entry
	for ui, u := range universe {
		if ui == fe.ut {
			continue
		}
		if !panics(func() { u.mk(seq[fi], sc.Reflector) }) {
			return fmt.Sprintf("NewLens/NewReflector[Blob, %s] accepted field %s of type %v", u.name, fe.name, fe.typ)
		}
	}
	// C01: the lens of the right type reads and writes exactly the field
	var l dynLens
	if panics(func() { l = universe[fe.ut].mk(seq[fi], sc.Reflector) }) {
		return fmt.Sprintf("NewLens/NewReflector[Blob, %s] panicked for field %s of that very type", universe[fe.ut].name, fe.name)
	}
	optcheck.FillValue(rt, v)
	p := (*Blob)(base)
	field := v.FieldByIndex(fe.index)
	snapshot := func() []byte {
		return append([]byte(nil), optcheck.BytesAt(arena.Addr().UnsafePointer(), arenaT.Size())...)
	}
	mask := optcheck.ValueMask(fe.typ)
	same := func(a, b reflect.Value) bool {
		x, y := optcheck.BytesAt(a.Addr().UnsafePointer(), fe.typ.Size()), optcheck.BytesAt(b.Addr().UnsafePointer(), fe.typ.Size())
		for i := range mask {
			if mask[i] && x[i] != y[i] {
				return false
			}
		}
		return true
	}
	get := func() reflect.Value {
		if sc.Reflector {
			return l.gett(p)
		}
		return l.get(p)
	}
	put := func(x reflect.Value) bool {
		if sc.Reflector {
			r, ok := l.putt(p, x).(*Blob)
			return ok && r == p
		}
		return l.put(p, x) == p
	}
	if g := get(); !same(g, field) {
		return fmt.Sprintf("Get of %s returned %s, reflect reads %s", fe.name, hexOf(g), hexOf(field))
	}
	before := snapshot()
	nv := optcheck.DrawOf(rt, fe.typ)
	if !put(nv) {
		return "Put did not return the pointer it was given"
	}
	after := snapshot()
	off := uintptr(field.Addr().UnsafePointer()) - uintptr(arena.Addr().UnsafePointer())
	for i := range before {
		in := uintptr(i) >= off && uintptr(i) < off+fe.typ.Size()
		if !in && before[i] != after[i] {
			return fmt.Sprintf("Put on %s (arena offset %d..%d) changed byte %d of the arena (struct starts at %d, ends at %d)", fe.name, off, off+fe.typ.Size(), i, guard, uintptr(guard)+shape.Size())
		}
	}
	if !same(field, nv) {
		return fmt.Sprintf("after Put the field %s holds %s, want %s", fe.name, hexOf(field), hexOf(nv))
	}
	if g := get(); !same(g, nv) {
		return fmt.Sprintf("PutGet violated on %s: %s after Put(%s)", fe.name, hexOf(g), hexOf(nv))
	}
	return ""
}

func stats(sc Scenario) (bool, []string) {
	shape := structOf(sc.Fields)
	var want []entry
	listing(sc.Fields, shape, nil, false, 0, &want)
	fe := want[sc.Focus%len(want)]
	bucket := "entries<4"
	switch {
	case len(want) >= 32:
		bucket = "entries>=32"
	case len(want) >= 12:
		bucket = "entries 12..31"
	case len(want) >= 4:
		bucket = "entries 4..11"
	}
	cl := []string{"dynamic-shape", bucket, fmt.Sprintf("focus-depth=%d", min(fe.depth, 3))}
	if fe.via {
		cl = append(cl, "focus-behind-pointer")
	}
	if shape.Size() > 255 {
		cl = append(cl, "struct>255-bytes")
	}
	if sc.Reflector {
		cl = append(cl, "reflector")
	}
	return len(want) >= 3 && (sc.Focus%len(want) > 0 || fe.depth >= 1), cl
}

func check(prop string, rt *rapid.T, sc Scenario) {
	msg := Run(rt, sc)
	nt, cl := stats(sc)
	vk.Record(sc, nt, cl...)
	if msg != "" {
		vk.Fail(prop, "TestDyn", "", sc, msg)
		rt.Fatalf("%s", msg)
	}
}

// TestDyn serves C01, C02 and C03 alike: one scenario checks the listing, the lookups, the type guard
// against every other focus type, and the frame condition of the accepted lens.
func TestDyn(t *testing.T) {
	prop := vk.IntEnv("VERIF_DUMMY", 0)
	_ = prop
	rapid.Check(t, func(rt *rapid.T) { check(envProp(), rt, gen(rt)) })
}

func envProp() string {
	if p := strings.TrimSpace(getenv("VERIF_PROP")); p != "" {
		return p
	}
	return "C01"
}

func TestReplay(t *testing.T) {
	var sc Scenario
	ok, err := vk.LoadReplay(&sc)
	if !ok {
		t.Skip("no VERIF_REPLAY")
	}
	if err != nil {
		t.Fatalf("bad replay file: %v", err)
	}
	rapid.Check(t, func(rt *rapid.T) {
		if msg := Run(rt, sc); msg != "" {
			rt.Fatalf("%s", msg)
		}
	})
	_ = unsafe.Pointer(nil)
}
