// Command shapegen writes generated shape programs (engine E1).
//
//	shapegen -seed N -shapes K -pkgs P -out DIR    P packages of K shapes each, seeds derived from N
//	shapegen -spec FILE -out DIR                    one package re-emitted from a saved program / replay scenario
package main

import (
	"encoding/json"
	"flag"
	"fmt"
	"os"
	"path/filepath"

	"verif/harness/shapegen"
)

func main() {
	seed := flag.Int("seed", 1, "base seed")
	shapes := flag.Int("shapes", 12, "shapes per package")
	pkgs := flag.Int("pkgs", 1, "number of packages")
	out := flag.String("out", "", "output directory (one sub-directory per package)")
	spec := flag.String("spec", "", "re-emit this program or replay scenario instead of generating")
	kind := flag.String("kind", "lens", "lens (C01-C03) | compose (C04)")
	shrink := flag.String("shrink", "", "emit one package holding every smaller variant of this failing scenario")
	flag.Parse()
	if *out == "" {
		fmt.Fprintln(os.Stderr, "need -out")
		os.Exit(2)
	}
	write := func(i int, p shapegen.Program) {
		dir := filepath.Join(*out, fmt.Sprintf("p%d", i))
		os.MkdirAll(dir, 0o755)
		name := fmt.Sprintf("p%d", i)
		src := shapegen.Emit(name, p)
		if err := os.WriteFile(filepath.Join(dir, "shapes_test.go"), []byte(src), 0o644); err != nil {
			panic(err)
		}
		b, _ := json.MarshalIndent(p, "", " ")
		os.WriteFile(filepath.Join(dir, "program.json"), b, 0o644)
	}
	if *shrink != "" {
		b, err := os.ReadFile(*shrink)
		if err != nil {
			panic(err)
		}
		p, err := shapegen.FromReplay(b)
		if err != nil || len(p.Shapes) != 1 || len(p.Requests) != 1 || len(p.Requests[0]) != 1 {
			fmt.Println("0 candidates")
			return
		}
		cands := shapegen.ShrinkCandidates(p.Shapes[0], p.Requests[0][0])
		all := shapegen.Program{}
		for _, c := range cands {
			all.Shapes = append(all.Shapes, c.Shapes...)
			all.Requests = append(all.Requests, c.Requests...)
		}
		if len(cands) > 0 {
			write(0, all)
		}
		fmt.Printf("%d candidates\n", len(cands))
		return
	}
	if *spec != "" {
		b, err := os.ReadFile(*spec)
		if err != nil {
			panic(err)
		}
		p, err := shapegen.FromReplay(b)
		if err != nil {
			panic(err)
		}
		write(0, p)
		return
	}
	for i := 0; i < *pkgs; i++ {
		s := (*seed*1000003 + i*7919) % (1 << 31)
		if s == 0 {
			s = 1
		}
		var p shapegen.Program
		if *kind == "compose" {
			p = shapegen.GenComposeProgram(s, *shapes, i*1000)
		} else {
			p = shapegen.GenProgram(s, *shapes, i*1000)
		}
		write(i, p)
	}
}
