package optcheck

import (
	"fmt"
	"reflect"
	"unsafe"

	"github.com/fogfish/golem/optics"
	"pgregory.net/rapid"
)

// P builds the expected write "the field at addr now holds *src".
func P[A any](addr *A, src *A) Patch {
	return Patch{Addr: unsafe.Pointer(addr), Src: unsafe.Pointer(src), Type: reflect.TypeOf((*A)(nil)).Elem()}
}

// SameAt compares a value obtained from an optic with the field the compiler addresses.
func SameAt[A any](h *H, what string, got *A, field *A) {
	if h.Failed() {
		return
	}
	if !sameBytes(reflect.TypeOf((*A)(nil)).Elem(), unsafe.Pointer(got), unsafe.Pointer(field)) {
		h.Failf("%s returned %s, the field holds %s", what, show(*got), show(*field))
	}
}

// Loose marks a span (an intermediate struct copied out and written back by Join) whose padding
// bytes are allowed to change; its value-carrying bytes are still compared.
type Loose struct {
	Addr unsafe.Pointer
	Type reflect.Type
}

func L[A any](addr *A) Loose {
	return Loose{Addr: unsafe.Pointer(addr), Type: reflect.TypeOf((*A)(nil)).Elem()}
}

// DiffLoose is Diff with loose spans: inside them only value-carrying bytes are compared.
func (a *Arena[S]) DiffLoose(before, after Image, loose []Loose, patches ...Patch) string {
	// neutralise the padding bytes of the loose spans in both images, then compare strictly
	b2, a2 := make(Image, len(before)), make(Image, len(after))
	for i := range before {
		b2[i], a2[i] = append([]byte(nil), before[i]...), append([]byte(nil), after[i]...)
	}
	for _, l := range loose {
		ri, off, ok := a.locate(l.Addr)
		if !ok {
			return "harness: loose span lies in no observed region"
		}
		for i, valueByte := range valueMask(l.Type) {
			if !valueByte {
				b2[ri][off+uintptr(i)], a2[ri][off+uintptr(i)] = 0, 0
			}
		}
	}
	return a.Diff(b2, a2, patches...)
}

// Composed checks a lens built by composition (Join, BiMap with identity, ...) like Lens, but tolerates
// padding changes inside the given intermediate structs.
func Composed[S, A any](h *H, what string, l optics.Lens[S, A], addr func(*S) *A, loose func(*S) []Loose) {
	if h.Failed() {
		return
	}
	defer func() {
		if r := recover(); r != nil {
			passRapid(r)
			h.Failf("%s: panic while using the composed lens: %v", what, r)
		}
	}()
	at := reflect.TypeOf((*A)(nil)).Elem()
	ar := NewArena[S](h.RT)
	p := ar.P()
	focus := addr(p)
	ls := loose(p)
	v1, v2 := Draw[A](h.RT), Draw[A](h.RT)
	before := ar.Snapshot()
	got := l.Get(p)
	if !sameBytes(at, unsafe.Pointer(&got), unsafe.Pointer(focus)) {
		h.Failf("%s: Get returned %s, the nested field holds %s", what, show(got), show(*focus))
		return
	}
	if d := ar.Diff(before, ar.Snapshot()); d != "" {
		h.Failf("%s: Get modified memory: %s", what, d)
		return
	}
	if ret := l.Put(p, got); ret != p {
		h.Failf("%s: Put returned another pointer", what)
		return
	}
	if d := ar.DiffLoose(before, ar.Snapshot(), ls, Patch{Addr: unsafe.Pointer(focus), Src: unsafe.Pointer(&got), Type: at}); d != "" {
		h.Failf("%s: GetPut violated: %s", what, d)
		return
	}
	before = ar.Snapshot()
	l.Put(p, v1)
	if d := ar.DiffLoose(before, ar.Snapshot(), ls, Patch{Addr: unsafe.Pointer(focus), Src: unsafe.Pointer(&v1), Type: at}); d != "" {
		h.Failf("%s: Put(%s): %s", what, show(v1), d)
		return
	}
	got = l.Get(p)
	if !sameBytes(at, unsafe.Pointer(&got), unsafe.Pointer(&v1)) {
		h.Failf("%s: PutGet violated: Get after Put(%s) returned %s", what, show(v1), show(got))
		return
	}
	l.Put(p, v2)
	if d := ar.DiffLoose(before, ar.Snapshot(), ls, Patch{Addr: unsafe.Pointer(focus), Src: unsafe.Pointer(&v2), Type: at}); d != "" {
		h.Failf("%s: PutPut violated: %s", what, d)
		return
	}
}

// BiMap checks a converting lens: the field of type A is seen as B through fmap/cmap.  gen draws view
// values on which the two conversions are mutually inverse.
func BiMap[S, A, B any](h *H, what string, l optics.Lens[S, B], addr func(*S) *A, fmap func(A) B, cmap func(B) A, gen func(*rapid.T) B) {
	if h.Failed() {
		return
	}
	defer func() {
		if r := recover(); r != nil {
			passRapid(r)
			h.Failf("%s: panic: %v", what, r)
		}
	}()
	at, bt := reflect.TypeOf((*A)(nil)).Elem(), reflect.TypeOf((*B)(nil)).Elem()
	ar := NewArena[S](h.RT)
	p := ar.P()
	focus := addr(p)
	b0, b1, b2 := gen(h.RT), gen(h.RT), gen(h.RT)
	*focus = cmap(b0) // a stored value on which the conversions are inverse to each other
	before := ar.Snapshot()
	_ = bt
	a0 := *focus
	got := l.Get(p)
	want := fmap(*focus)
	if !reflect.DeepEqual(got, want) {
		h.Failf("%s: Get returned %#v, fmap(field) is %#v", what, got, want)
		return
	}
	if ret := l.Put(p, got); ret != p {
		h.Failf("%s: Put returned another pointer", what)
		return
	}
	// the stored value is compared semantically (a conversion may allocate), everything else byte by byte
	if d := ar.Diff(before, ar.Snapshot(), Patch{Addr: unsafe.Pointer(focus), Src: unsafe.Pointer(focus), Type: at, Skip: true}); d != "" || !reflect.DeepEqual(*focus, a0) {
		h.Failf("%s: GetPut violated: field was %#v, is %#v %s", what, a0, *focus, d)
		return
	}
	a1 := cmap(b1)
	l.Put(p, b1)
	if d := ar.Diff(before, ar.Snapshot(), Patch{Addr: unsafe.Pointer(focus), Src: unsafe.Pointer(&a1), Type: at, Skip: true}); d != "" || !reflect.DeepEqual(*focus, a1) {
		h.Failf("%s: Put(%#v) must store cmap(b)=%#v, field holds %#v %s", what, b1, a1, *focus, d)
		return
	}
	got = l.Get(p)
	if !reflect.DeepEqual(got, b1) {
		h.Failf("%s: PutGet violated: Get after Put(%#v) returned %#v", what, b1, got)
		return
	}
	a2 := cmap(b2)
	l.Put(p, b2)
	if d := ar.Diff(before, ar.Snapshot(), Patch{Addr: unsafe.Pointer(focus), Src: unsafe.Pointer(&a2), Type: at, Skip: true}); d != "" || !reflect.DeepEqual(*focus, a2) {
		h.Failf("%s: PutPut violated: field holds %#v, want %#v %s", what, *focus, a2, d)
		return
	}
	// boundary values of slice-typed views: the nil slice and the empty, non-nil slice are different values
	if bt.Kind() == reflect.Slice {
		for _, bv := range []reflect.Value{reflect.Zero(bt), reflect.MakeSlice(bt, 0, 0), reflect.MakeSlice(bt, 0, 3)} {
			b := bv.Interface().(B)
			if !reflect.DeepEqual(fmap(cmap(b)), b) {
				continue // the conversions are not inverse to each other on this value: outside the statement
			}
			ab := cmap(b)
			l.Put(p, b)
			if !reflect.DeepEqual(*focus, ab) {
				h.Failf("%s: Put(%#v) must store cmap(b)=%#v, field holds %#v", what, b, ab, *focus)
				return
			}
			if got := l.Get(p); !reflect.DeepEqual(got, b) {
				h.Failf("%s: PutGet violated on a boundary value: Get after Put(%#v) returned %#v", what, b, got)
				return
			}
		}
	}
}

// Getter: Put never writes, Get is f(field).
func Getter[S, A, B any](h *H, what string, l optics.Lens[S, B], addr func(*S) *A, f func(A) B) {
	if h.Failed() {
		return
	}
	bt := reflect.TypeOf((*B)(nil)).Elem()
	ar := NewArena[S](h.RT)
	p := ar.P()
	before := ar.Snapshot()
	_ = bt
	got, want := l.Get(p), f(*addr(p))
	if !reflect.DeepEqual(got, want) {
		h.Failf("%s: Get returned %#v, f(field) is %#v", what, got, want)
		return
	}
	if ret := l.Put(p, Draw[B](h.RT)); ret != p {
		h.Failf("%s: Put returned another pointer", what)
		return
	}
	if d := ar.Diff(before, ar.Snapshot()); d != "" {
		h.Failf("%s: a Getter must never write: %s", what, d)
	}
}

// Setter: Put writes exactly f(b), Get returns the zero B.
func Setter[S, A, B any](h *H, what string, l optics.Lens[S, B], addr func(*S) *A, f func(B) A) {
	if h.Failed() {
		return
	}
	at, bt := reflect.TypeOf((*A)(nil)).Elem(), reflect.TypeOf((*B)(nil)).Elem()
	ar := NewArena[S](h.RT)
	p := ar.P()
	before := ar.Snapshot()
	var zero B
	if got := l.Get(p); !sameBytes(bt, unsafe.Pointer(&got), unsafe.Pointer(&zero)) {
		h.Failf("%s: Get of a Setter returned %s, want the zero value", what, show(got))
		return
	}
	b := Draw[B](h.RT)
	a := f(b)
	if ret := l.Put(p, b); ret != p {
		h.Failf("%s: Put returned another pointer", what)
		return
	}
	if d := ar.Diff(before, ar.Snapshot(), Patch{Addr: unsafe.Pointer(addr(p)), Src: unsafe.Pointer(&a), Type: at, Skip: true}); d != "" || !reflect.DeepEqual(*addr(p), a) {
		h.Failf("%s: Put(%#v) must store f(b)=%#v, field holds %#v %s", what, b, a, *addr(p), d)
	}
}

// PutCheck is used by emitted ShapeN code: after a Put through the product lens the image must differ
// from the old one by exactly the given component writes.
func PutCheck[S any](h *H, what string, ar *Arena[S], before Image, samePtr bool, patches ...Patch) {
	if h.Failed() {
		return
	}
	if !samePtr {
		h.Failf("%s: Put returned another pointer", what)
		return
	}
	if d := ar.Diff(before, ar.Snapshot(), patches...); d != "" {
		h.Failf("%s: %s", what, d)
	}
}

// MapLens checks a lens on one key of a map: only that key changes, the map keeps its identity.
func MapLens[M ~map[string]int](h *H, what string, l optics.Lens[M, int], key string) {
	if h.Failed() {
		return
	}
	m := M{}
	keys := []string{"a", "b", key + "x", "", "zz"}
	// class first: an existing but EMPTY map, a map holding only the key, anything
	switch rapid.IntRange(0, 4).Draw(h.RT, "mapclass") {
	case 0:
	case 1:
		m[key] = rapid.IntRange(-5, 5).Draw(h.RT, "kval")
	default:
		for _, k := range keys {
			if rapid.Bool().Draw(h.RT, "present") {
				m[k] = rapid.IntRange(-5, 5).Draw(h.RT, "val")
			}
		}
		if rapid.Bool().Draw(h.RT, "keyPresent") {
			m[key] = rapid.IntRange(-5, 5).Draw(h.RT, "kval")
		}
	}
	alias := m // a second reference to the same map: the write must be visible through it
	model := map[string]int{}
	for k, v := range m {
		model[k] = v
	}
	ident := reflect.ValueOf(m).Pointer()
	if got := l.Get(&m); got != model[key] {
		h.Failf("%s: Get returned %d, the map holds %d under %q", what, got, model[key], key)
		return
	}
	v := rapid.IntRange(-100, 100).Draw(h.RT, "new")
	mp := &m
	if ret := l.Put(mp, v); ret != mp {
		h.Failf("%s: Put returned another pointer", what)
		return
	}
	model[key] = v
	if reflect.ValueOf(m).Pointer() != ident {
		h.Failf("%s: Put replaced the map instead of setting the key", what)
		return
	}
	if !reflect.DeepEqual(map[string]int(alias), model) {
		h.Failf("%s: after Put(%q, %d) a second reference to the same map sees %v, want %v", what, key, v, map[string]int(alias), model)
		return
	}
	if !reflect.DeepEqual(map[string]int(m), model) {
		h.Failf("%s: after Put(%q, %d) the map is %v, want %v", what, key, v, map[string]int(m), model)
		return
	}
	if got := l.Get(&m); got != v {
		h.Failf("%s: PutGet violated: %d after Put(%d)", what, got, v)
	}
}

// Pair describes one iso of a morphism: the focus on the source side, on the target side, and a way to
// overwrite the source focus with a fresh drawn value.
type Pair[S, T any] struct {
	Src      func(*S) unsafe.Pointer
	Dst      func(*T) unsafe.Pointer
	Type     reflect.Type
	Scramble func(*rapid.T, *S)
}

// Morph checks an isomorphism (single Iso or Morphism over a list): Forward copies exactly the source
// foci onto the target foci; Inverse copies them back; nothing else changes on either side.
func Morph[S, T any](h *H, what string, m optics.Isomorphism[S, T], pairs []Pair[S, T]) {
	if h.Failed() {
		return
	}
	defer func() {
		if r := recover(); r != nil {
			passRapid(r)
			h.Failf("%s: panic: %v", what, r)
		}
	}()
	as, at := NewArena[S](h.RT), NewArena[T](h.RT)
	s, t := as.P(), at.P()
	s0, t0 := as.Snapshot(), at.Snapshot()
	m.Forward(s, t)
	if d := as.Diff(s0, as.Snapshot()); d != "" {
		h.Failf("%s: Forward modified the source: %s", what, d)
		return
	}
	var fw []Patch
	for _, p := range pairs {
		fw = append(fw, Patch{Addr: p.Dst(t), Src: p.Src(s), Type: p.Type})
	}
	if d := at.Diff(t0, at.Snapshot(), fw...); d != "" {
		h.Failf("%s: Forward: target differs from 'target foci := source foci, rest unchanged': %s", what, d)
		return
	}
	// scramble the source foci, then Inverse must restore them from the target and touch nothing else
	for _, p := range pairs {
		p.Scramble(h.RT, s)
	}
	t1 := at.Snapshot()
	m.Inverse(t, s)
	if d := at.Diff(t1, at.Snapshot()); d != "" {
		h.Failf("%s: Inverse modified the target: %s", what, d)
		return
	}
	var bw []Patch
	for _, p := range pairs {
		bw = append(bw, Patch{Addr: p.Src(s), Src: p.Dst(t), Type: p.Type})
	}
	if d := as.Diff(s0, as.Snapshot(), bw...); d != "" {
		h.Failf("%s: Forward then Inverse does not restore the source foci / touches other fields: %s", what, d)
		return
	}
	_ = fmt.Sprint
}

// Reverse reverses the bytes of a string (its own inverse: a valid BiMap pair).
func Reverse(s string) string {
	b := []byte(s)
	for i, j := 0, len(b)-1; i < j; i, j = i+1, j-1 {
		b[i], b[j] = b[j], b[i]
	}
	return string(b)
}

// Hex renders the value-carrying bytes of a value (a pure function of the value used as a Getter projection).
func Hex[A any](a A) string {
	t := reflect.TypeOf((*A)(nil)).Elem()
	m := valueMask(t)
	b := bytesAt(unsafe.Pointer(&a), t.Size())
	out := make([]byte, 0, 2*len(b))
	for i := range b {
		if m[i] {
			out = append(out, "0123456789abcdef"[b[i]>>4], "0123456789abcdef"[b[i]&15])
		}
	}
	return string(out)
}

// Shared uses ONE lens value from two goroutines at the same time, each on its own structure.  A lens is an
// immutable value; whatever one goroutine does through it must not leak into the other's structure.
func Shared[S, A any](h *H, what string, l optics.Lens[S, A], addr func(*S) *A, loose func(*S) []Loose) {
	if h.Failed() {
		return
	}
	at := reflect.TypeOf((*A)(nil)).Elem()
	type side struct {
		ar   *Arena[S]
		vals []A
	}
	var sides [2]side
	for i := range sides {
		sides[i].ar = NewArena[S](h.RT)
		for k := 0; k < 4; k++ {
			sides[i].vals = append(sides[i].vals, Draw[A](h.RT))
		}
	}
	errs := make(chan string, 2)
	start := make(chan struct{})
	for i := range sides {
		go func(sd side) {
			defer func() {
				if r := recover(); r != nil {
					errs <- fmt.Sprintf("panic: %v", r)
				}
			}()
			<-start
			p := sd.ar.P()
			focus := addr(p)
			ls := loose(p)
			before := sd.ar.Snapshot()
			for round := 0; round < 300; round++ {
				v := sd.vals[round%len(sd.vals)]
				l.Put(p, v)
				if d := sd.ar.DiffLoose(before, sd.ar.Snapshot(), ls, Patch{Addr: unsafe.Pointer(focus), Src: unsafe.Pointer(&v), Type: at}); d != "" {
					errs <- fmt.Sprintf("round %d: %s", round, d)
					return
				}
				got := l.Get(p)
				if !sameBytes(at, unsafe.Pointer(&got), unsafe.Pointer(&v)) {
					errs <- fmt.Sprintf("round %d: Get returned %s after Put(%s)", round, show(got), show(v))
					return
				}
			}
			errs <- ""
		}(sides[i])
	}
	close(start)
	for range sides {
		if e := <-errs; e != "" {
			h.Failf("%s: one lens value used by two goroutines on two different structures: %s", what, e)
		}
	}
}

// SameIsos: the slice of isomorphisms the caller handed to Morphism reads as before (same entries at the same places,
// nil entries included).
func SameIsos[S, T any](h *H, what string, now, kept []optics.Isomorphism[S, T]) {
	if h.Failed() {
		return
	}
	show := func(l []optics.Isomorphism[S, T]) string {
		out := "["
		for i, x := range l {
			if i > 0 {
				out += " "
			}
			if x == nil {
				out += "nil"
			} else if v := reflect.ValueOf(x); v.Kind() == reflect.Pointer {
				out += fmt.Sprintf("iso@%x", v.Pointer())
			} else {
				out += "iso"
			}
		}
		return out + "]"
	}
	if show(now) != show(kept) {
		h.Failf("%s changed the slice of isomorphisms the caller passed: it was %s, it reads %s afterwards", what, show(kept), show(now))
	}
}
