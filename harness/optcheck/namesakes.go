package optcheck

import (
	"unsafe"

	"github.com/fogfish/golem/hseq"
	"github.com/fogfish/golem/optics"
	altut "verif/harness/optcheck/alt/ut"
	"verif/harness/optcheck/ut"
)

// NamesakeListings unfolds two container types that have the same name (Pt) in two packages of the same name (ut),
// alternately: whatever hseq remembers about one must not be served for the other.
func NamesakeListings(h *H) {
	a := []Entry[ut.Pt]{
		{Name: "X", Key: "X", Type: T[int8](), Pure: T[int8](), Addr: func(p *ut.Pt) unsafe.Pointer { return unsafe.Pointer(&p.X) }},
		{Name: "Y", Key: "Y", Type: T[int64](), Pure: T[int64](), Addr: func(p *ut.Pt) unsafe.Pointer { return unsafe.Pointer(&p.Y) }},
	}
	b := []Entry[altut.Pt]{
		{Name: "A", Key: "A", Type: T[string](), Pure: T[string](), Addr: func(p *altut.Pt) unsafe.Pointer { return unsafe.Pointer(&p.A) }},
		{Name: "X", Key: "X", Type: T[int8](), Pure: T[int8](), Addr: func(p *altut.Pt) unsafe.Pointer { return unsafe.Pointer(&p.X) }},
		{Name: "Y", Key: "Y", Type: T[int64](), Pure: T[int64](), Addr: func(p *altut.Pt) unsafe.Pointer { return unsafe.Pointer(&p.Y) }},
	}
	Listing(h, a)
	sb := Listing(h, b)
	sa := Listing(h, a)
	ByName(h, sa, a, "Y", 1)
	ByName(h, sb, b, "Y", 2)
	ByName(h, sa, a, "A", -1)
	ByType[altut.Pt, string](h, sb, b, 0)
	ByType[ut.Pt, string](h, sa, a, -1)
	_ = hseq.New[ut.Pt]
}

// NamesakeLenses derives lenses for the same field name in the two namesake containers, alternately.
func NamesakeLenses(h *H) {
	var l1 optics.Lens[ut.Pt, int64]
	var l2 optics.Lens[altut.Pt, int64]
	var l3 optics.Lens[ut.Pt, int64]
	if !MustNotPanic(h, "ForProduct1 on two containers named ut.Pt", func() {
		l1 = optics.ForProduct1[ut.Pt, int64]("Y")
		l2 = optics.ForProduct1[altut.Pt, int64]("Y")
		l3 = optics.ForProduct1[ut.Pt, int64]()
	}) {
		return
	}
	Lens(h, l1, func(p *ut.Pt) *int64 { return &p.Y })
	Lens(h, l2, func(p *altut.Pt) *int64 { return &p.Y })
	Lens(h, l3, func(p *ut.Pt) *int64 { return &p.Y })
	MustPanic(h, "ForProduct1[ut.Pt, string]('A'): only the namesake container has a field A", func() { optics.ForProduct1[ut.Pt, string]("A") })
}

// GenericListings: containers that are instantiations of one generic struct type (the type name carries the type
// arguments), unfolded alternately, and a struct that embeds an instantiated generic struct.
func GenericListings(h *H) {
	a := []Entry[ut.Box[int8]]{
		{Name: "Head", Key: "Head", Type: T[int8](), Pure: T[int8](), Addr: func(p *ut.Box[int8]) unsafe.Pointer { return unsafe.Pointer(&p.Head) }},
		{Name: "Tail", Key: "Tail", Type: T[[]int8](), Pure: T[[]int8](), Addr: func(p *ut.Box[int8]) unsafe.Pointer { return unsafe.Pointer(&p.Tail) }},
		{Name: "N", Key: "N", Type: T[int](), Pure: T[int](), Addr: func(p *ut.Box[int8]) unsafe.Pointer { return unsafe.Pointer(&p.N) }},
	}
	b := []Entry[ut.Box[string]]{
		{Name: "Head", Key: "Head", Type: T[string](), Pure: T[string](), Addr: func(p *ut.Box[string]) unsafe.Pointer { return unsafe.Pointer(&p.Head) }},
		{Name: "Tail", Key: "Tail", Type: T[[]string](), Pure: T[[]string](), Addr: func(p *ut.Box[string]) unsafe.Pointer { return unsafe.Pointer(&p.Tail) }},
		{Name: "N", Key: "N", Type: T[int](), Pure: T[int](), Addr: func(p *ut.Box[string]) unsafe.Pointer { return unsafe.Pointer(&p.N) }},
	}
	c := []Entry[ut.Wrap[int64]]{
		{Name: "Box", Key: "Box", Type: T[ut.Box[int64]](), Pure: T[ut.Box[int64]](), Addr: func(p *ut.Wrap[int64]) unsafe.Pointer { return unsafe.Pointer(&p.Box) }},
		{Name: "Head", Key: "Head", Type: T[int64](), Pure: T[int64](), Addr: func(p *ut.Wrap[int64]) unsafe.Pointer { return unsafe.Pointer(&p.Head) }},
		{Name: "Tail", Key: "Tail", Type: T[[]int64](), Pure: T[[]int64](), Addr: func(p *ut.Wrap[int64]) unsafe.Pointer { return unsafe.Pointer(&p.Tail) }},
		{Name: "N", Key: "N", Type: T[int](), Pure: T[int](), Addr: func(p *ut.Wrap[int64]) unsafe.Pointer { return unsafe.Pointer(&p.N) }},
		{Name: "Label", Key: "label", Type: T[string](), Pure: T[string](), Addr: func(p *ut.Wrap[int64]) unsafe.Pointer { return unsafe.Pointer(&p.Label) }},
	}
	Listing(h, a)
	sb := Listing(h, b)
	sa := Listing(h, a)
	sc := Listing(h, c)
	ByName(h, sa, a, "Head", 0)
	ByName(h, sb, b, "Head", 0)
	ByName(h, sc, c, "Head", 1)
	ByName(h, sc, c, "label", 4)
	ByName(h, sc, c, "Label", -1)
	ByType[ut.Box[int8], int8](h, sa, a, 0)
	ByType[ut.Box[string], string](h, sb, b, 0)
	ByType[ut.Box[string], int8](h, sb, b, -1)
	ByType[ut.Wrap[int64], ut.Box[int64]](h, sc, c, 0)
	ByType[ut.Wrap[int64], ut.Box[int8]](h, sc, c, -1)
}

// GenericLenses: lenses into instantiations of a generic container, alternately, and through an embedded one.
func GenericLenses(h *H) {
	var l1 optics.Lens[ut.Box[int8], int8]
	var l2 optics.Lens[ut.Box[string], string]
	var l3 optics.Lens[ut.Box[int8], []int8]
	var l4 optics.Lens[ut.Wrap[int64], int64]
	var l5 optics.Lens[ut.Wrap[int64], ut.Box[int64]]
	var l6 optics.Lens[ut.Wrap[int64], string]
	if !MustNotPanic(h, "ForProduct1 on instantiations of generic containers (ut.Box[int8], ut.Box[string], ut.Wrap[int64])", func() {
		l1 = optics.ForProduct1[ut.Box[int8], int8]("Head")
		l2 = optics.ForProduct1[ut.Box[string], string]("Head")
		l3 = optics.ForProduct1[ut.Box[int8], []int8]()
		l4 = optics.ForProduct1[ut.Wrap[int64], int64]("Head")
		l5 = optics.ForProduct1[ut.Wrap[int64], ut.Box[int64]]("Box")
		l6 = optics.ForProduct1[ut.Wrap[int64], string]("label")
	}) {
		return
	}
	Lens(h, l1, func(p *ut.Box[int8]) *int8 { return &p.Head })
	Lens(h, l2, func(p *ut.Box[string]) *string { return &p.Head })
	Lens(h, l3, func(p *ut.Box[int8]) *[]int8 { return &p.Tail })
	Lens(h, l4, func(p *ut.Wrap[int64]) *int64 { return &p.Head })
	Lens(h, l5, func(p *ut.Wrap[int64]) *ut.Box[int64] { return &p.Box })
	Lens(h, l6, func(p *ut.Wrap[int64]) *string { return &p.Label })
	MustPanic(h, "ForProduct1[ut.Box[int8], string]('Head'): Head is an int8 in this instantiation", func() { optics.ForProduct1[ut.Box[int8], string]("Head") })
	MustPanic(h, "ForProduct1[ut.Wrap[int64], ut.Box[int8]]('Box'): the embedded struct is another instantiation of the generic type", func() { optics.ForProduct1[ut.Wrap[int64], ut.Box[int8]]("Box") })
	MustPanic(h, "ForProduct1[ut.Wrap[int64], ut.Box[int8]](): no field has that instantiation", func() { optics.ForProduct1[ut.Wrap[int64], ut.Box[int8]]() })
}
