package optcheck

import (
	"unsafe"

	"github.com/fogfish/golem/hseq"
	"github.com/fogfish/golem/optics"
	altut "verif/harness/optcheck/alt/ut"
	"verif/harness/optcheck/ut"
)

// NamesakeListings unfolds two container types that have the same name (Pt) in two packages of the same name (ut),
// alternately: whatever hseq remembers about one must not be served for the other.
func NamesakeListings(h *H) {
	a := []Entry[ut.Pt]{
		{Name: "X", Key: "X", Type: T[int8](), Pure: T[int8](), Addr: func(p *ut.Pt) unsafe.Pointer { return unsafe.Pointer(&p.X) }},
		{Name: "Y", Key: "Y", Type: T[int64](), Pure: T[int64](), Addr: func(p *ut.Pt) unsafe.Pointer { return unsafe.Pointer(&p.Y) }},
	}
	b := []Entry[altut.Pt]{
		{Name: "A", Key: "A", Type: T[string](), Pure: T[string](), Addr: func(p *altut.Pt) unsafe.Pointer { return unsafe.Pointer(&p.A) }},
		{Name: "X", Key: "X", Type: T[int8](), Pure: T[int8](), Addr: func(p *altut.Pt) unsafe.Pointer { return unsafe.Pointer(&p.X) }},
		{Name: "Y", Key: "Y", Type: T[int64](), Pure: T[int64](), Addr: func(p *altut.Pt) unsafe.Pointer { return unsafe.Pointer(&p.Y) }},
	}
	Listing(h, a)
	sb := Listing(h, b)
	sa := Listing(h, a)
	ByName(h, sa, a, "Y", 1)
	ByName(h, sb, b, "Y", 2)
	ByName(h, sa, a, "A", -1)
	ByType[altut.Pt, string](h, sb, b, 0)
	ByType[ut.Pt, string](h, sa, a, -1)
	_ = hseq.New[ut.Pt]
}

// NamesakeLenses derives lenses for the same field name in the two namesake containers, alternately.
func NamesakeLenses(h *H) {
	var l1 optics.Lens[ut.Pt, int64]
	var l2 optics.Lens[altut.Pt, int64]
	var l3 optics.Lens[ut.Pt, int64]
	if !MustNotPanic(h, "ForProduct1 on two containers named ut.Pt", func() {
		l1 = optics.ForProduct1[ut.Pt, int64]("Y")
		l2 = optics.ForProduct1[altut.Pt, int64]("Y")
		l3 = optics.ForProduct1[ut.Pt, int64]()
	}) {
		return
	}
	Lens(h, l1, func(p *ut.Pt) *int64 { return &p.Y })
	Lens(h, l2, func(p *altut.Pt) *int64 { return &p.Y })
	Lens(h, l3, func(p *ut.Pt) *int64 { return &p.Y })
	MustPanic(h, "ForProduct1[ut.Pt, string]('A'): only the namesake container has a field A", func() { optics.ForProduct1[ut.Pt, string]("A") })
}
