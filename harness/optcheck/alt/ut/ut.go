// Package ut (import path .../optcheck/alt/ut) deliberately has the same package name as
// .../optcheck/ut: its types print exactly like their namesakes (reflect.Type.String() is "ut.Pt",
// "*ut.Pt", "[]ut.MyStr") although they are different types.
package ut

// Pt has the same name as ut.Pt and a different layout.
type Pt struct {
	A string
	X int8
	Y int64
}

type MyStr string
