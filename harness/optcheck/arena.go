// Package optcheck is the hand-written checker behind the generated shape programs (engine E1) and
// the run-time shape tier (E2): canary-guarded arenas, byte images, reflection-driven value drawing.
package optcheck

import (
	"fmt"
	"reflect"
	"unsafe"

	"pgregory.net/rapid"
	"verif/harness/optcheck/ut"
)

const guard = 64

// region is a piece of memory under observation: the arena of the container, or the pointee of an embedded pointer.
type region struct {
	base unsafe.Pointer
	size uintptr
	mask []bool // true: byte carries a value (not padding); guard zones are all true
	keep any    // keeps the memory alive
}

func bytesAt(p unsafe.Pointer, n uintptr) []byte {
	if n == 0 {
		return nil
	}
	return unsafe.Slice((*byte)(p), n)
}

func (r *region) snapshot() []byte { return append([]byte(nil), bytesAt(r.base, r.size)...) }

// valueMask marks the bytes of a value of type t that belong to some leaf (false = padding).
func valueMask(t reflect.Type) []bool {
	m := make([]bool, t.Size())
	fillMask(t, m, 0)
	return m
}

func fillMask(t reflect.Type, m []bool, off uintptr) {
	switch t.Kind() {
	case reflect.Struct:
		for i := 0; i < t.NumField(); i++ {
			f := t.Field(i)
			fillMask(f.Type, m, off+f.Offset)
		}
	case reflect.Array:
		for i := 0; i < t.Len(); i++ {
			fillMask(t.Elem(), m, off+uintptr(i)*t.Elem().Size())
		}
	default:
		for i := uintptr(0); i < t.Size(); i++ {
			m[off+i] = true
		}
	}
}

// Arena holds one container value of type S between two canary zones, plus the pointees it reaches.
type Arena[S any] struct {
	mem     *guarded[S]
	regions []*region
}

type guarded[S any] struct {
	Pre  [guard]byte
	V    S
	Post [guard]byte
}

// NewArena allocates the container on the heap, fills the canaries and fills EVERY leaf of V with drawn values.
func NewArena[S any](rt *rapid.T) *Arena[S] {
	a := &Arena[S]{mem: new(guarded[S])}
	for i := range a.mem.Pre {
		a.mem.Pre[i] = 0xA5
		a.mem.Post[i] = 0x5A
	}
	gt := reflect.TypeOf(a.mem).Elem()
	r := &region{base: unsafe.Pointer(a.mem), size: gt.Size(), mask: valueMask(gt), keep: a.mem}
	a.regions = []*region{r}
	Fill(rt, reflect.ValueOf(&a.mem.V).Elem(), a, 0)
	return a
}

func (a *Arena[S]) P() *S { return &a.mem.V }

// Image is the byte content of every observed region.
type Image [][]byte

func (a *Arena[S]) Snapshot() Image {
	im := make(Image, len(a.regions))
	for i, r := range a.regions {
		im[i] = r.snapshot()
	}
	return im
}

// locate finds the region and offset an address falls into.
func (a *Arena[S]) locate(p unsafe.Pointer) (int, uintptr, bool) {
	for i, r := range a.regions {
		if uintptr(p) >= uintptr(r.base) && uintptr(p) <= uintptr(r.base)+r.size {
			return i, uintptr(p) - uintptr(r.base), true
		}
	}
	return 0, 0, false
}

// Patch describes one expected write: size bytes at addr become the bytes of the value at src.
type Patch struct {
	Addr unsafe.Pointer
	Src  unsafe.Pointer
	Type reflect.Type
	Skip bool // the span may change freely here; the caller compares the stored value semantically
}

// Diff compares two images.  Every byte outside the patches must be identical (padding and canaries
// included); inside a patch the value-carrying bytes must equal the bytes of the patch source
// (padding inside the written value is not constrained).
func (a *Arena[S]) Diff(before, after Image, patches ...Patch) string {
	type span struct {
		region   int
		off, end uintptr
		src      []byte
		mask     []bool
	}
	var spans []span
	for _, p := range patches {
		ri, off, ok := a.locate(p.Addr)
		if !ok {
			return fmt.Sprintf("harness: expected write at %p lies in no observed region", p.Addr)
		}
		m := valueMask(p.Type)
		if p.Skip {
			m = make([]bool, p.Type.Size())
		}
		spans = append(spans, span{ri, off, off + p.Type.Size(), append([]byte(nil), bytesAt(p.Src, p.Type.Size())...), m})
	}
	for ri := range a.regions {
		b, c := before[ri], after[ri]
		for i := uintptr(0); i < uintptr(len(b)); i++ {
			var in *span
			for k := range spans {
				if spans[k].region == ri && i >= spans[k].off && i < spans[k].end {
					in = &spans[k] // later patches win
				}
			}
			if in != nil {
				if in.mask[i-in.off] && c[i] != in.src[i-in.off] {
					return fmt.Sprintf("byte %d of %s: is 0x%02x after the write, the written value has 0x%02x there (focus at offset %d..%d)", i, a.where(ri, i), c[i], in.src[i-in.off], in.off, in.end)
				}
				continue
			}
			if b[i] != c[i] {
				return fmt.Sprintf("byte %d of %s changed from 0x%02x to 0x%02x, but it lies outside the focus %v", i, a.where(ri, i), b[i], c[i], describe(spans, func(s span) string { return fmt.Sprintf("[%d..%d) of region %d", s.off, s.end, s.region) }))
			}
		}
	}
	return ""
}

func describe[T any](xs []T, f func(T) string) []string {
	out := []string{}
	for _, x := range xs {
		out = append(out, f(x))
	}
	return out
}

func (a *Arena[S]) where(ri int, off uintptr) string {
	if ri > 0 {
		return fmt.Sprintf("pointee region %d", ri)
	}
	st := reflect.TypeOf(a.mem).Elem()
	vOff := st.Field(1).Offset
	switch {
	case off < vOff:
		return "the canary zone BEFORE the struct"
	case off >= vOff+st.Field(1).Type.Size():
		return "the canary zone AFTER the struct"
	}
	return fmt.Sprintf("the struct (struct offset %d: %s)", off-vOff, fieldAt(st.Field(1).Type, off-vOff))
}

// fieldAt names the field of t covering offset off ("padding" if none).
func fieldAt(t reflect.Type, off uintptr) string {
	if t.Kind() != reflect.Struct {
		return t.String()
	}
	for i := 0; i < t.NumField(); i++ {
		f := t.Field(i)
		if off >= f.Offset && off < f.Offset+f.Type.Size() {
			if f.Type.Kind() == reflect.Struct {
				return f.Name + "." + fieldAt(f.Type, off-f.Offset)
			}
			return f.Name
		}
	}
	return "padding"
}

// ---- drawing values by reflection

var stringPool = []string{"", "a", "b", "golem", "αβγ", "\x00\xff", "a rather long string that does not fit any small-string optimisation at all"}

func settable(v reflect.Value) reflect.Value {
	if v.CanSet() {
		return v
	}
	return reflect.NewAt(v.Type(), unsafe.Pointer(v.UnsafeAddr())).Elem()
}

// Fill sets every leaf reachable from v (through structs, arrays and embedded struct pointers) to a drawn value.
// Pointees of pointers to structs are allocated and registered with the arena so that they are observed too.
func Fill[S any](rt *rapid.T, v reflect.Value, a *Arena[S], depth int) {
	v = settable(v)
	t := v.Type()
	switch t.Kind() {
	case reflect.Struct:
		for i := 0; i < t.NumField(); i++ {
			Fill(rt, v.Field(i), a, depth+1)
		}
	case reflect.Array:
		if t.Len() > 4 {
			fillBigArray(rt, v)
			return
		}
		for i := 0; i < t.Len(); i++ {
			Fill(rt, v.Index(i), a, depth+1)
		}
	case reflect.Pointer:
		if t.Elem().Kind() == reflect.Struct && t.Elem() != reflect.TypeOf(ut.Buf{}) && t.Elem() != reflect.TypeOf(ut.Err{}) && depth < 6 {
			// pointer to a struct: always non-nil inside an arena, pointee observed
			p := reflect.New(t.Elem())
			if a != nil {
				a.regions = append(a.regions, &region{base: p.UnsafePointer(), size: t.Elem().Size(), mask: valueMask(t.Elem()), keep: p.Interface()})
			}
			Fill(rt, p.Elem(), a, depth+1)
			v.Set(p)
			return
		}
		v.Set(drawLeaf(rt, t))
	default:
		v.Set(drawLeaf(rt, t))
	}
}

// Draw produces a value of type A for use as the argument of Put.
func Draw[A any](rt *rapid.T) A {
	var a A
	v := reflect.ValueOf(&a).Elem()
	Fill[struct{}](rt, v, nil, 0)
	return a
}

func drawLeaf(rt *rapid.T, t reflect.Type) reflect.Value {
	v := reflect.New(t).Elem()
	switch t.Kind() {
	case reflect.Bool:
		v.SetBool(rapid.Bool().Draw(rt, "bool"))
	case reflect.Int, reflect.Int8, reflect.Int16, reflect.Int32, reflect.Int64:
		bits := t.Bits()
		x := rapid.OneOf(rapid.Int64Range(1, 100), rapid.Int64(), rapid.Just(int64(-1)), rapid.Just(int64(1)<<(bits-1)-1), rapid.Just(-int64(1)<<(bits-1))).Draw(rt, "int")
		v.SetInt(x << (64 - bits) >> (64 - bits))
	case reflect.Uint, reflect.Uint8, reflect.Uint16, reflect.Uint32, reflect.Uint64, reflect.Uintptr:
		bits := t.Bits()
		x := rapid.OneOf(rapid.Uint64Range(1, 200), rapid.Uint64(), rapid.Just(^uint64(0))).Draw(rt, "uint")
		v.SetUint(x << (64 - bits) >> (64 - bits))
	case reflect.Float32, reflect.Float64:
		v.SetFloat(rapid.OneOf(rapid.Float64Range(-1000, 1000), rapid.Just(0.5), rapid.Just(-0.0)).Draw(rt, "float"))
	case reflect.Complex64, reflect.Complex128:
		v.SetComplex(complex(rapid.Float64Range(-9, 9).Draw(rt, "re"), rapid.Float64Range(-9, 9).Draw(rt, "im")))
	case reflect.String:
		v.SetString(rapid.OneOf(rapid.SampledFrom(stringPool), rapid.StringN(1, 12, 40)).Draw(rt, "string"))
	case reflect.Slice:
		n := rapid.IntRange(-1, 4).Draw(rt, "slicelen")
		if n >= 0 {
			s := reflect.MakeSlice(t, n, n+rapid.IntRange(0, 2).Draw(rt, "spare"))
			for i := 0; i < n; i++ {
				s.Index(i).Set(drawLeaf(rt, t.Elem()))
			}
			v.Set(s)
		}
	case reflect.Map:
		if rapid.IntRange(0, 3).Draw(rt, "mapnil") > 0 {
			m := reflect.MakeMap(t)
			for i := 0; i < rapid.IntRange(0, 3).Draw(rt, "maplen"); i++ {
				m.SetMapIndex(drawLeaf(rt, t.Key()), drawLeaf(rt, t.Elem()))
			}
			v.Set(m)
		}
	case reflect.Chan:
		if rapid.Bool().Draw(rt, "chan") {
			v.Set(reflect.MakeChan(t, 1))
		}
	case reflect.Func:
		k := rapid.IntRange(0, 2).Draw(rt, "func")
		switch {
		case k == 0:
		case t != reflect.TypeOf(ut.F1):
			// another function type: two distinct function values made by reflection (results are zero values)
			v.Set(madeFunc(t, k))
		case k == 1:
			v.Set(reflect.ValueOf(ut.F1))
		default:
			v.Set(reflect.ValueOf(ut.F2))
		}
	case reflect.Pointer:
		if rapid.IntRange(0, 3).Draw(rt, "ptrnil") > 0 {
			p := reflect.New(t.Elem())
			fillPlain(rt, p.Elem())
			v.Set(p)
		}
	case reflect.Interface:
		cands := []any{nil, 7, "dyn", &ut.Buf{N: 3}, ut.Tag(9), &ut.Err{Code: 4}, 2.5}
		for tries := 0; tries < 20; tries++ {
			c := rapid.SampledFrom(cands).Draw(rt, "dyn")
			if c == nil {
				break
			}
			if reflect.TypeOf(c).Implements(t) {
				v.Set(reflect.ValueOf(c))
				break
			}
		}
	case reflect.Struct, reflect.Array:
		fillPlain(rt, v)
	}
	return v
}

// fillBigArray derives the elements of a long array from two drawn values (rapid bounds the amount
// of random data per case): every element is non-zero and differs from its neighbours.
func fillBigArray(rt *rapid.T, v reflect.Value) {
	first, second := drawLeaf(rt, v.Type().Elem()), drawLeaf(rt, v.Type().Elem())
	for i := 0; i < v.Len(); i++ {
		e := v.Index(i)
		switch e.Kind() {
		case reflect.Int, reflect.Int8, reflect.Int16, reflect.Int32, reflect.Int64:
			e.SetInt(first.Int() + int64(i)*(second.Int()|1) + 1)
		case reflect.Uint, reflect.Uint8, reflect.Uint16, reflect.Uint32, reflect.Uint64, reflect.Uintptr:
			e.SetUint(first.Uint() + uint64(i)*(second.Uint()|1) + 1)
		default:
			if i%2 == 0 {
				e.Set(first)
			} else {
				e.Set(second)
			}
		}
	}
}

func fillPlain(rt *rapid.T, v reflect.Value) {
	v = settable(v)
	switch v.Kind() {
	case reflect.Struct:
		for i := 0; i < v.NumField(); i++ {
			fillPlain(rt, v.Field(i))
		}
	case reflect.Array:
		if v.Len() > 4 {
			fillBigArray(rt, v)
			return
		}
		for i := 0; i < v.Len(); i++ {
			fillPlain(rt, v.Index(i))
		}
	default:
		v.Set(drawLeaf(rt, v.Type()))
	}
}

// ---- exported helpers for the run-time shape tier (harness/optdyn)

// FillValue sets every leaf below v to a drawn value (pointees of struct pointers are allocated, not observed).
func FillValue(rt *rapid.T, v reflect.Value) { Fill[struct{}](rt, v, nil, 0) }

// DrawOf draws one value of a type known only at run time.
func DrawOf(rt *rapid.T, t reflect.Type) reflect.Value {
	v := reflect.New(t).Elem()
	Fill[struct{}](rt, v, nil, 0)
	return v
}

// ValueMask marks the value-carrying (non-padding) bytes of a type.
func ValueMask(t reflect.Type) []bool { return valueMask(t) }

// BytesAt views n bytes of memory.
func BytesAt(p unsafe.Pointer, n uintptr) []byte { return bytesAt(p, n) }

var madeFuncs = map[[2]any]reflect.Value{}

// madeFunc returns the k-th function value of type t (the same value for the same (t, k): function values are
// compared by their code pointer in the byte image).
func madeFunc(t reflect.Type, k int) reflect.Value {
	key := [2]any{t, k}
	if f, ok := madeFuncs[key]; ok {
		return f
	}
	f := reflect.MakeFunc(t, func([]reflect.Value) []reflect.Value {
		out := make([]reflect.Value, t.NumOut())
		for i := range out {
			out[i] = reflect.Zero(t.Out(i))
		}
		return out
	})
	madeFuncs[key] = f
	return f
}
