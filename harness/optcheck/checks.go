package optcheck

import (
	"fmt"
	"reflect"
	"strings"
	"unsafe"

	"github.com/fogfish/golem/optics"
	"pgregory.net/rapid"
)

// H is the context of one case execution: the rapid source of values and the failure sink.
type H struct {
	RT   *rapid.T
	Case string
	msg  string
}

func (h *H) Failf(format string, args ...any) {
	if h.msg == "" {
		h.msg = fmt.Sprintf(format, args...)
	}
}

func (h *H) Failed() bool    { return h.msg != "" }
func (h *H) Message() string { return h.msg }

// Panics runs f and reports whether it panicked.
func Panics(f func()) (panicked bool, val any) {
	defer func() {
		if r := recover(); r != nil {
			passRapid(r)
			panicked, val = true, r
		}
	}()
	f()
	return false, nil
}

// passRapid re-raises the control-flow panics of the rapid library (invalid data, stop test).
func passRapid(r any) {
	if strings.HasPrefix(fmt.Sprintf("%T", r), "rapid.") || strings.HasPrefix(fmt.Sprintf("%T", r), "*rapid.") {
		panic(r)
	}
}

func sameBytes(t reflect.Type, p, q unsafe.Pointer) bool {
	m := valueMask(t)
	a, b := bytesAt(p, t.Size()), bytesAt(q, t.Size())
	for i := range m {
		if m[i] && a[i] != b[i] {
			return false
		}
	}
	return true
}

// show renders a value by its raw bytes: the value may be garbage read from a wrong address, so it
// must never be dereferenced (no %v).
func show[A any](a A) string {
	t := reflect.TypeOf((*A)(nil)).Elem()
	b := bytesAt(unsafe.Pointer(&a), t.Size())
	if len(b) > 24 {
		return fmt.Sprintf("%s{% x ...}", t, b[:24])
	}
	return fmt.Sprintf("%s{% x}", t, b)
}

// Lens checks one lens against the compiler-computed address of its focus: Get, Put (byte image of the
// arena: the focus equals the new value, everything else - other fields, padding, canaries, pointees -
// unchanged), the returned pointer, and the three laws stated on images.
func Lens[S, A any](h *H, l optics.Lens[S, A], addr func(*S) *A) {
	if h.Failed() {
		return
	}
	defer func() {
		if r := recover(); r != nil {
			passRapid(r)
			h.Failf("panic while using a derived lens: %v", r)
		}
	}()
	at := reflect.TypeOf((*A)(nil)).Elem()
	ar := NewArena[S](h.RT)
	p := ar.P()
	focus := addr(p)
	v1, v2 := Draw[A](h.RT), Draw[A](h.RT)

	// Get returns exactly the field's current value
	before := ar.Snapshot()
	got := l.Get(p)
	if !sameBytes(at, unsafe.Pointer(&got), unsafe.Pointer(focus)) {
		h.Failf("Get returned %s, the field holds %s", show(got), show(*focus))
		return
	}
	if d := ar.Diff(before, ar.Snapshot()); d != "" {
		h.Failf("Get modified memory: %s", d)
		return
	}
	// GetPut: putting back what was read changes nothing
	if ret := l.Put(p, got); ret != p {
		h.Failf("Put returned %p, not the struct pointer %p it was given", ret, p)
		return
	}
	if d := ar.Diff(before, ar.Snapshot(), Patch{Addr: unsafe.Pointer(focus), Src: unsafe.Pointer(&got), Type: at}); d != "" {
		h.Failf("GetPut violated: Put(p, Get(p)): %s", d)
		return
	}
	// Put writes the focus and nothing else
	before = ar.Snapshot()
	if ret := l.Put(p, v1); ret != p {
		h.Failf("Put returned %p, not the struct pointer %p it was given", ret, p)
		return
	}
	after1 := ar.Snapshot()
	if d := ar.Diff(before, after1, Patch{Addr: unsafe.Pointer(focus), Src: unsafe.Pointer(&v1), Type: at}); d != "" {
		h.Failf("Put(%s): %s", show(v1), d)
		return
	}
	// PutGet
	got = l.Get(p)
	if !sameBytes(at, unsafe.Pointer(&got), unsafe.Pointer(&v1)) {
		h.Failf("PutGet violated: Get after Put(%s) returned %s", show(v1), show(got))
		return
	}
	// PutPut: the second Put wins, image as if only it had happened
	l.Put(p, v2)
	if d := ar.Diff(before, ar.Snapshot(), Patch{Addr: unsafe.Pointer(focus), Src: unsafe.Pointer(&v2), Type: at}); d != "" {
		h.Failf("PutPut violated: Put(%s) then Put(%s): %s", show(v1), show(v2), d)
		return
	}
}

// Reflector is Lens for the dynamically typed interface of the same optic.
func Reflector[S, A any](h *H, l optics.Reflector[A], addr func(*S) *A) {
	if h.Failed() {
		return
	}
	defer func() {
		if r := recover(); r != nil {
			passRapid(r)
			h.Failf("panic while using a derived reflector with a pointer to its own container type: %v", r)
		}
	}()
	at := reflect.TypeOf((*A)(nil)).Elem()
	ar := NewArena[S](h.RT)
	p := ar.P()
	focus := addr(p)
	v1, v2 := Draw[A](h.RT), Draw[A](h.RT)
	before := ar.Snapshot()
	got := l.Gett(p)
	if !sameBytes(at, unsafe.Pointer(&got), unsafe.Pointer(focus)) {
		h.Failf("Gett returned %s, the field holds %s", show(got), show(*focus))
		return
	}
	ret := l.Putt(p, v1)
	if rp, ok := ret.(*S); !ok || rp != p {
		h.Failf("Putt returned %T %v, not the struct pointer it was given", ret, ret)
		return
	}
	if d := ar.Diff(before, ar.Snapshot(), Patch{Addr: unsafe.Pointer(focus), Src: unsafe.Pointer(&v1), Type: at}); d != "" {
		h.Failf("Putt(%s): %s", show(v1), d)
		return
	}
	got = l.Gett(p)
	if !sameBytes(at, unsafe.Pointer(&got), unsafe.Pointer(&v1)) {
		h.Failf("PutGet violated: Gett after Putt(%s) returned %s", show(v1), show(got))
		return
	}
	l.Putt(p, v2)
	if d := ar.Diff(before, ar.Snapshot(), Patch{Addr: unsafe.Pointer(focus), Src: unsafe.Pointer(&v2), Type: at}); d != "" {
		h.Failf("PutPut violated: %s", d)
		return
	}
	// GetPut
	before = ar.Snapshot()
	l.Putt(p, l.Gett(p))
	if d := ar.Diff(before, ar.Snapshot(), Patch{Addr: unsafe.Pointer(focus), Src: unsafe.Pointer(focus), Type: at}); d != "" {
		h.Failf("GetPut violated: %s", d)
		return
	}
}

// Other is a container-shaped decoy: a different named struct type with the same layout is produced by the generator.

// ReflectorRejects passes everything but a pointer to the container to Gett/Putt: each call must panic
// and leave the arena untouched.
func ReflectorRejects[S, A any](h *H, l optics.Reflector[A], decoys ...any) {
	if h.Failed() {
		return
	}
	ar := NewArena[S](h.RT)
	p := ar.P()
	pp := &p
	v := Draw[A](h.RT)
	var nilA *A
	args := append([]any{*p, pp, nilA, nil, unsafe.Pointer(p), uintptr(unsafe.Pointer(p)), new(A), 42, "s"}, decoys...)
	// composites whose element type is the container: reflect's Elem() and pointer accessors are defined for them too
	st := reflect.TypeOf(p).Elem()
	sl := reflect.MakeSlice(reflect.SliceOf(st), 1, 2)
	arr := reflect.New(reflect.ArrayOf(1, st))
	mp := reflect.MakeMapWithSize(reflect.MapOf(reflect.TypeOf(""), st), 1)
	mp.SetMapIndex(reflect.ValueOf("k"), reflect.Zero(st))
	args = append(args, sl.Interface(), arr.Interface(), arr.Elem().Interface(), mp.Interface())
	if st.Size() < 1<<16 { // a channel's element type must be smaller than 64 KiB
		args = append(args, reflect.MakeChan(reflect.ChanOf(reflect.BothDir, st), 1).Interface())
	}
	args = append(args,
		reflect.MakeSlice(reflect.SliceOf(reflect.TypeOf(p)), 1, 1).Interface(),
		reflect.Zero(reflect.FuncOf(nil, []reflect.Type{reflect.TypeOf(p)}, false)).Interface())
	before := ar.Snapshot()
	for _, a := range args {
		if reflect.TypeOf(a) == reflect.TypeOf(p) {
			continue // a decoy that happens to be the container pointer type
		}
		if ok, _ := Panics(func() { l.Gett(a) }); !ok {
			h.Failf("Gett(%T) did not panic although the argument is not a pointer to the container type %T", a, p)
			return
		}
		if ok, _ := Panics(func() { l.Putt(a, v) }); !ok {
			h.Failf("Putt(%T, v) did not panic although the argument is not a pointer to the container type %T", a, p)
			return
		}
		if d := ar.Diff(before, ar.Snapshot()); d != "" {
			h.Failf("Gett/Putt(%T) panicked but modified memory: %s", a, d)
			return
		}
	}
}

// MustPanic: a derivation that must be refused.
func MustPanic(h *H, what string, f func()) {
	if h.Failed() {
		return
	}
	if ok, _ := Panics(f); !ok {
		h.Failf("%s was accepted silently; it must panic at derivation time", what)
	}
}

// MustNotPanic: a derivation the model says is valid.
func MustNotPanic(h *H, what string, f func()) bool {
	if h.Failed() {
		return false
	}
	if ok, v := Panics(f); ok {
		s := fmt.Sprint(v)
		if i := strings.IndexByte(s[min(len(s), 1):], '\n'); i > 0 && len(s) > 200 {
			s = s[:200]
		}
		h.Failf("%s panicked although the request is valid: %s", what, s)
		return false
	}
	return true
}
