package optcheck

import (
	"encoding/json"
	"os"
	"strings"
	"testing"

	"pgregory.net/rapid"
	"verif/harness/vk"
)

// Case is one request of a generated program.
type Case struct {
	ID      string
	Prop    string
	Shape   string // JSON spec of the shape
	Request string // JSON of the request
	NT      bool
	Classes []string
	Run     func(h *H)
}

// Scenario is what a replay file of engine E1 holds: enough to re-emit a one-shape program.
type Scenario struct {
	Engine  string          `json:"engine"`
	Case    string          `json:"case"`
	Shape   json.RawMessage `json:"shape"`
	Request json.RawMessage `json:"request"`
}

// RunCases executes the cases of the property named by VERIF_PROP (all when unset); each case is
// run under rapid.Check so that the field values and the values written are drawn and shrunk.
func RunCases(t *testing.T, cases []Case) {
	prop := os.Getenv("VERIF_PROP")
	only := os.Getenv("VERIF_CASE")
	for _, c := range cases {
		if prop != "" && c.Prop != prop {
			continue
		}
		if only != "" && c.ID != only {
			continue
		}
		sc := Scenario{Engine: "E1", Case: c.ID, Shape: json.RawMessage(c.Shape), Request: json.RawMessage(c.Request)}
		vk.Journal(c.Prop, "TestShapes", sc)
		draws := 0
		failed := ""
		func() {
			rapid.Check(t, func(rt *rapid.T) {
				draws++
				h := &H{RT: rt, Case: c.ID}
				c.Run(h)
				if h.Failed() {
					failed = c.ID + ": " + h.Message()
					// recorded at once: a schedule-dependent failure may not show again when rapid re-runs the case
					vk.Fail(c.Prop, "TestShapes", "", sc, failed)
					rt.Fatalf("%s", failed)
				}
			})
		}()
		cl := append([]string{"prop=" + c.Prop}, c.Classes...)
		vk.Record(sc, c.NT, cl...)
		vk.Class("value-draws", int64(draws))
		if t.Failed() {
			return
		}
	}
}

// Describe renders a case for messages.
func Describe(c Case) string { return c.ID + " " + strings.ReplaceAll(c.Request, "\"", "'") }
