package optcheck

import (
	"reflect"
	"unsafe"

	"github.com/fogfish/golem/hseq"
)

// Entry is one line of the flattened listing the model predicts for a struct type.
type Entry[S any] struct {
	Name string                  // Go field name (an embedded field is named after its type)
	Key  string                  // first comma part of the hseq tag if non-empty, else the name
	Type reflect.Type            // declared type of the field
	Pure reflect.Type            // declared type with one pointer stripped
	Addr func(*S) unsafe.Pointer // compiler-computed address; nil when the field lies behind a pointer
}

func T[A any]() reflect.Type { return reflect.TypeOf((*A)(nil)).Elem() }

// SameEntry compares one hseq.Type with the model entry expected at position id.
func SameEntry[S any](h *H, what string, got hseq.Type[S], want Entry[S], id int) bool {
	if h.Failed() {
		return false
	}
	switch {
	case got.Name != want.Name:
		h.Failf("%s: entry %d is field %q, the listing has %q there", what, id, got.Name, want.Name)
	case got.Type != want.Type:
		h.Failf("%s: entry %d (%s) has type %v, declared type is %v", what, id, want.Name, got.Type, want.Type)
	case got.PureType != want.Pure:
		h.Failf("%s: entry %d (%s) has PureType %v, want %v", what, id, want.Name, got.PureType, want.Pure)
	case got.ID != id:
		h.Failf("%s: entry %q has ID %d, its position in the full listing is %d", what, want.Name, got.ID, id)
	case got.FieldKey() != want.Key:
		h.Failf("%s: entry %d (%s) has key %q, want %q", what, id, want.Name, got.FieldKey(), want.Key)
	}
	if !h.Failed() && want.Addr != nil {
		var s S
		real := uintptr(want.Addr(&s)) - uintptr(unsafe.Pointer(&s))
		if got.RootOffs+got.Offset != real {
			h.Failf("%s: entry %d (%s): root offset %d + field offset %d = %d, the compiler places the field at byte %d", what, id, want.Name, got.RootOffs, got.Offset, got.RootOffs+got.Offset, real)
		}
	}
	return !h.Failed()
}

// Listing checks hseq.New[S]() against the model: same length, same order, every entry equal.
func Listing[S any](h *H, want []Entry[S]) hseq.Seq[S] {
	if h.Failed() {
		return nil
	}
	var seq hseq.Seq[S]
	if !MustNotPanic(h, "hseq.New[S]()", func() { seq = hseq.New[S]() }) {
		return nil
	}
	if len(seq) != len(want) {
		names := []string{}
		for _, e := range seq {
			names = append(names, e.Name)
		}
		h.Failf("hseq.New lists %d entries %v, the struct unfolds to %d entries", len(seq), names, len(want))
		return nil
	}
	for i := range want {
		if !SameEntry(h, "hseq.New", seq[i], want[i], i) {
			return nil
		}
	}
	// the result belongs to the caller: reordering or truncating it must not show in a later unfolding
	for i, j := 0, len(seq)-1; i < j; i, j = i+1, j-1 {
		seq[i], seq[j] = seq[j], seq[i]
	}
	if len(seq) > 1 {
		seq[0] = seq[1]
	}
	again := hseq.New[S]()
	if len(again) != len(want) {
		h.Failf("second hseq.New lists %d entries after the first result was modified by its owner, want %d", len(again), len(want))
		return nil
	}
	for i := range want {
		if !SameEntry(h, "second hseq.New (after the first result was reordered by its owner)", again[i], want[i], i) {
			return nil
		}
	}
	return again
}

// ByName checks ForName / ForNameMaybe / New(name): want < 0 means the key does not occur.
func ByName[S any](h *H, seq hseq.Seq[S], listing []Entry[S], key string, want int) {
	if h.Failed() || seq == nil {
		return
	}
	got, ok := hseq.ForNameMaybe(seq, key)
	if want < 0 {
		if ok {
			h.Failf("ForNameMaybe(%q) reports entry %d (%s) although no entry has that key", key, got.ID, got.Name)
			return
		}
		MustPanic(h, "ForName with the unknown name "+key, func() { hseq.ForName(seq, key) })
		MustPanic(h, "hseq.New with the unknown name "+key, func() { hseq.New[S](key) })
		return
	}
	if !ok {
		h.Failf("ForNameMaybe(%q) reports absence, entry %d (%s) has that key", key, want, listing[want].Name)
		return
	}
	if !SameEntry(h, "ForNameMaybe("+key+")", got, listing[want], want) {
		return
	}
	var g2 hseq.Type[S]
	if MustNotPanic(h, "ForName("+key+")", func() { g2 = hseq.ForName(seq, key) }) {
		SameEntry(h, "ForName("+key+")", g2, listing[want], want)
	}
}

// ByNames checks hseq.New[S](names...): entries in the requested order, repeats allowed.
func ByNames[S any](h *H, listing []Entry[S], names []string, want []int) {
	if h.Failed() {
		return
	}
	for _, w := range want {
		if w < 0 {
			MustPanic(h, "hseq.New with an unknown name", func() { hseq.New[S](names...) })
			return
		}
	}
	var seq hseq.Seq[S]
	if !MustNotPanic(h, "hseq.New(names...)", func() { seq = hseq.New[S](names...) }) {
		return
	}
	if len(seq) != len(want) {
		h.Failf("hseq.New(%v) returned %d entries, want %d", names, len(seq), len(want))
		return
	}
	for i, w := range want {
		if !SameEntry(h, "hseq.New(names...)", seq[i], listing[w], w) {
			return
		}
	}
}

// ByType checks ForType[A]: want < 0 means no entry has exactly that type.
func ByType[S, A any](h *H, seq hseq.Seq[S], listing []Entry[S], want int) {
	if h.Failed() || seq == nil {
		return
	}
	what := "ForType[" + T[A]().String() + "]"
	if want < 0 {
		MustPanic(h, what+" (no field has that type)", func() { hseq.ForType[A](seq) })
		return
	}
	var got hseq.Type[S]
	if MustNotPanic(h, what, func() { got = hseq.ForType[A](seq) }) {
		SameEntry(h, what, got, listing[want], want)
	}
}

// SeqIs checks the result of hseq.NewN (by types) against the expected positions.
func SeqIs[S any](h *H, what string, mk func() hseq.Seq[S], listing []Entry[S], want []int) hseq.Seq[S] {
	if h.Failed() {
		return nil
	}
	for _, w := range want {
		if w < 0 {
			MustPanic(h, what+" (a type no field has)", func() { mk() })
			return nil
		}
	}
	var seq hseq.Seq[S]
	if !MustNotPanic(h, what, func() { seq = mk() }) {
		return nil
	}
	if len(seq) != len(want) {
		h.Failf("%s returned %d entries, want %d", what, len(seq), len(want))
		return nil
	}
	for i, w := range want {
		if !SameEntry(h, what, seq[i], listing[w], w) {
			return nil
		}
	}
	return seq
}

// Rec is a recording function for FMap/FMapN: it notes which entry it was handed.
type Rec[S any] struct{ Calls []int }

func (r *Rec[S]) F() func(hseq.Type[S]) int {
	return func(t hseq.Type[S]) int { r.Calls = append(r.Calls, t.ID); return t.ID }
}

// FMapAll checks hseq.FMap: f is applied to every entry once, in order, results in order.
func FMapAll[S any](h *H, seq hseq.Seq[S]) {
	if h.Failed() || seq == nil {
		return
	}
	var r Rec[S]
	out := hseq.FMap(seq, r.F())
	if len(out) != len(seq) || len(r.Calls) != len(seq) {
		h.Failf("FMap over %d entries called f %d times and returned %d results", len(seq), len(r.Calls), len(out))
		return
	}
	for i := range seq {
		if r.Calls[i] != seq[i].ID || out[i] != seq[i].ID {
			h.Failf("FMap: call %d received entry %d, result %d; want entry %d", i, r.Calls[i], out[i], seq[i].ID)
			return
		}
	}
}

// FMapNResult checks what the recording functions of one FMapN call saw: the i-th function received the i-th entry once.
func FMapNResult[S any](h *H, what string, seq hseq.Seq[S], recs []*Rec[S], results []int) {
	if h.Failed() {
		return
	}
	for i, r := range recs {
		if len(r.Calls) != 1 || r.Calls[0] != seq[i].ID || results[i] != seq[i].ID {
			h.Failf("%s: function %d was called with entries %v and its result slot holds %d; want exactly one call with entry %d", what, i+1, r.Calls, results[i], seq[i].ID)
			return
		}
	}
}
