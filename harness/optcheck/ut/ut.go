// Package ut holds the named types of the field-type universe used by generated shape programs.
package ut

import "strconv"

type Pt struct {
	X int8
	Y int64
}

type MyStr string
type MyInt16 int16
type MyInt int
type MyInt64 int64
type MyBytes []byte
type MyF32 float32
type MyF64 float64
type Labels []string
type MyMap map[string]int
type MyBool bool

// Buf implements fmt.Stringer with a pointer receiver.
type Buf struct{ N int }

func (b *Buf) String() string { return "buf" + strconv.Itoa(b.N) }

// Tag implements fmt.Stringer with a value receiver.
type Tag uint8

func (t Tag) String() string { return "tag" + strconv.Itoa(int(t)) }

// Err implements error.
type Err struct{ Code int }

func (e *Err) Error() string { return "err" + strconv.Itoa(e.Code) }

func F1() int { return 1 }
func F2() int { return 2 }

// Generic containers: the type name carries its type arguments ("Box[int8]").
type Box[T any] struct {
	Head T
	Tail []T
	N    int
}

type Wrap[T any] struct {
	Box[T]
	Label string `hseq:"label"`
}
