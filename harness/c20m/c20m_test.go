// Package c20m: PipeN over stages of DIFFERENT types.  A package of its own: if a change to the staged source alters a
// signature so that these heterogeneous instantiations no longer compile, only this part is inconclusive and the
// homogeneous families of harness/c20 still give their verdict.
package c20m

import (
	"fmt"
	"strconv"
	"testing"

	"pgregory.net/rapid"
	"verif/harness/vk"
)

func TestMain(m *testing.M) { vk.Main(m) }

// Scenario: stage i of kind mixedKinds[pattern+N][i] is built from A[i], B[i] and its position.
type Scenario struct {
	N    int   `json:"n"`
	A    []int `json:"a"`
	B    []int `json:"b"`
	Args []int `json:"args"`
}

func gen(t *rapid.T) Scenario {
	sc := Scenario{N: rapid.IntRange(2, 20).Draw(t, "n"), Args: rapid.SliceOfN(rapid.IntRange(0, 1000002), 1, 3).Draw(t, "args")}
	for i := 0; i < sc.N; i++ {
		sc.A = append(sc.A, rapid.IntRange(2, 9).Draw(t, "a"))
		sc.B = append(sc.B, rapid.IntRange(1, 9).Draw(t, "b"))
	}
	return sc
}

// Run: stages of different types (int->int, int->string, string->int, string->string) in the three fixed type patterns
// of mixed_gen.go: every stage depends on its position, so any regrouping of stages of equal signature shows.
func Run(sc Scenario) (msg string) {
	defer func() {
		if r := recover(); r != nil {
			msg = fmt.Sprintf("Pipe%d over stages of different types panicked although no stage does: %v", sc.N, r)
		}
	}()
	for _, pat := range []string{"A", "B", "C"} {
		kinds := mixedKinds[pat+strconv.Itoa(sc.N)]
		st := mixedStages{ii: make([]func(int) int, sc.N), is: make([]func(int) string, sc.N), si: make([]func(string) int, sc.N), ss: make([]func(string) string, sc.N)}
		ref := make([]func(any) any, sc.N)
		cnt := make([]int, sc.N)
		for i := range kinds {
			a, b := sc.A[i]+i, sc.B[i]
			switch kinds[i] {
			case "ii":
				f := func(x int) int { cnt[i]++; return (a*x + b + i) % 1000003 }
				st.ii[i], ref[i] = f, func(x any) any { return f(x.(int)) }
			case "is":
				f := func(x int) string { cnt[i]++; return strconv.Itoa(x*a+b) + "#" + strconv.Itoa(i) }
				st.is[i], ref[i] = f, func(x any) any { return f(x.(int)) }
			case "si":
				f := func(x string) int {
					cnt[i]++
					h := i + b
					for _, c := range []byte(x) {
						h = (h*31 + int(c)) % 1000003
					}
					return h
				}
				st.si[i], ref[i] = f, func(x any) any { return f(x.(string)) }
			default:
				f := func(x string) string { cnt[i]++; return x + "<" + strconv.Itoa(i) + ":" + strconv.Itoa(a) + ">" }
				st.ss[i], ref[i] = f, func(x any) any { return f(x.(string)) }
			}
		}
		h := mixedBuild[pat+strconv.Itoa(sc.N)](st)
		for k, arg := range sc.Args {
			for i := range cnt {
				cnt[i] = 0
			}
			var want any = arg
			for i := range ref {
				want = ref[i](want)
			}
			for i := range cnt {
				cnt[i] = 0
			}
			got := h(arg)
			if got != want {
				return fmt.Sprintf("call %d: Pipe%d over stages of the types %v (pattern %s) applied to %d = %v, the left-to-right fold gives %v", k, sc.N, kinds, pat, arg, got, want)
			}
			for i, c := range cnt {
				if c != 1 {
					return fmt.Sprintf("call %d: Pipe%d (type pattern %s): f_%d was applied %d times", k, sc.N, pat, i+1, c)
				}
			}
		}
	}
	return ""
}

func check(t interface{ Fatalf(string, ...any) }, sc Scenario) {
	vk.Journal("C20", "TestC20Mixed", sc)
	msg := Run(sc)
	vk.Record(sc, true, "N="+strconv.Itoa(sc.N), "family=mixed", "calls="+strconv.Itoa(len(sc.Args)))
	if msg != "" {
		vk.Fail("C20", "TestC20Mixed", "", sc, msg)
		t.Fatalf("%s", msg)
	}
}

func TestC20Mixed(t *testing.T) { rapid.Check(t, func(rt *rapid.T) { check(rt, gen(rt)) }) }

// TestC20MixedEach: every N with fixed parameters.
func TestC20MixedEach(t *testing.T) {
	for n := 2; n <= 20; n++ {
		sc := Scenario{N: n, Args: []int{3, 999983, 4, 4}}
		for i := 0; i < n; i++ {
			sc.A = append(sc.A, 2+i%7)
			sc.B = append(sc.B, 1+(2*i)%9)
		}
		check(t, sc)
	}
	vk.Exhaustive("every N in 2..20 x three type patterns of int/string stages (fixed stage parameters)")
}

func TestReplay(t *testing.T) {
	var sc Scenario
	ok, err := vk.LoadReplay(&sc)
	if !ok {
		t.Skip("no VERIF_REPLAY")
	}
	if err != nil {
		t.Fatalf("bad replay file: %v", err)
	}
	if msg := Run(sc); msg != "" {
		t.Fatalf("%s", msg)
	}
}
