// Package optpar: derivations of listings and lenses from several goroutines at once (race detector on).
// hseq.New and the optics constructors are pure functions of their type parameters; whatever they remember between
// calls (nothing, on the current tree) must be safe to share.
package optpar

import (
	"fmt"
	"strconv"
	"testing"

	"github.com/fogfish/golem/hseq"
	"github.com/fogfish/golem/optics"
	"pgregory.net/rapid"
	altut "verif/harness/optcheck/alt/ut"
	"verif/harness/optcheck/ut"
	"verif/harness/vk"
)

func TestMain(m *testing.M) { vk.Main(m) }

type Scenario struct {
	Parts [][]int `json:"parts"` // per goroutine: indices into the action menu
}

func names[T any](seq hseq.Seq[T]) string {
	s := ""
	for _, f := range seq {
		s += f.Name + ":" + f.Type.String() + " "
	}
	return s
}

var menu = []func() string{
	func() string {
		if got, want := names(hseq.New[ut.Pt]()), "X:int8 Y:int64 "; got != want {
			return fmt.Sprintf("hseq.New[ut.Pt] lists %q, want %q", got, want)
		}
		return ""
	},
	func() string {
		if got, want := names(hseq.New[altut.Pt]()), "A:string X:int8 Y:int64 "; got != want {
			return fmt.Sprintf("hseq.New[alt/ut.Pt] lists %q, want %q", got, want)
		}
		return ""
	},
	func() string {
		if got, want := names(hseq.New[ut.Wrap[int64]]()), "Box:ut.Box[int64] Head:int64 Tail:[]int64 N:int Label:string "; got != want {
			return fmt.Sprintf("hseq.New[ut.Wrap[int64]] lists %q, want %q", got, want)
		}
		return ""
	},
	func() string {
		l := optics.ForProduct1[ut.Pt, int64]("Y")
		p := ut.Pt{X: 3, Y: 4}
		l.Put(&p, 77)
		if p.X != 3 || p.Y != 77 || l.Get(&p) != 77 {
			return fmt.Sprintf("lens ut.Pt.Y: after Put(77) the struct reads %+v", p)
		}
		return ""
	},
	func() string {
		l := optics.ForProduct1[altut.Pt, int64]("Y")
		p := altut.Pt{A: "a", X: 3, Y: 4}
		l.Put(&p, 78)
		if p.A != "a" || p.X != 3 || p.Y != 78 || l.Get(&p) != 78 {
			return fmt.Sprintf("lens alt/ut.Pt.Y: after Put(78) the struct reads %+v", p)
		}
		return ""
	},
	func() string {
		a, b := optics.ForProduct2[ut.Wrap[int64], int64, string]("Head", "label")
		p := ut.Wrap[int64]{Box: ut.Box[int64]{Head: 1, N: 9}, Label: "l"}
		a.Put(&p, 5)
		b.Put(&p, "m")
		if p.Head != 5 || p.N != 9 || p.Label != "m" || a.Get(&p) != 5 || b.Get(&p) != "m" {
			return fmt.Sprintf("lenses into ut.Wrap[int64]: the struct reads %+v", p)
		}
		return ""
	},
	func() string {
		r := optics.ForSpectrum1[ut.Box[string], string]("Head")
		p := ut.Box[string]{Head: "h", N: 2}
		r.Putt(&p, "z")
		if p.Head != "z" || p.N != 2 || r.Gett(&p) != "z" {
			return fmt.Sprintf("reflector ut.Box[string].Head: the struct reads %+v", p)
		}
		return ""
	},
}

func run(sc Scenario) string {
	return vk.Par(len(sc.Parts), func(i int) string {
		for rep := 0; rep < 20; rep++ {
			for _, a := range sc.Parts[i] {
				if m := menu[a%len(menu)](); m != "" {
					return m
				}
			}
		}
		return ""
	})
}

func TestPar(t *testing.T) {
	rapid.Check(t, func(rt *rapid.T) {
		var sc Scenario
		for k := rapid.IntRange(2, 8).Draw(rt, "goroutines"); k > 0; k-- {
			sc.Parts = append(sc.Parts, rapid.SliceOfN(rapid.IntRange(0, len(menu)-1), 1, 8).Draw(rt, "actions"))
		}
		prop := vk.Prop()
		vk.Journal(prop, "TestPar", sc)
		msg := run(sc)
		vk.Record(sc, true, "parallel-derivations", "goroutines="+strconv.Itoa(len(sc.Parts)))
		if msg != "" {
			vk.Fail(prop, "TestPar", "", sc, msg)
			rt.Fatalf("%s", msg)
		}
	})
}

func TestReplayPar(t *testing.T) {
	var sc Scenario
	ok, err := vk.LoadReplay(&sc)
	if !ok {
		t.Skip("no VERIF_REPLAY")
	}
	if err != nil {
		t.Fatalf("bad replay file: %v", err)
	}
	for a := 0; a < 50; a++ {
		if msg := run(sc); msg != "" {
			t.Fatalf("attempt %d: %s", a+1, msg)
		}
	}
}
