package c17

import (
	"bytes"
	"cmp"
	"fmt"
	"math"
	"strings"
	"testing"

	"github.com/fogfish/golem/pure"
	"github.com/fogfish/golem/pure/eq"
	"github.com/fogfish/golem/pure/monoid"
	"github.com/fogfish/golem/pure/ord"
	"github.com/fogfish/golem/pure/semigroup"
	"pgregory.net/rapid"
	"verif/harness/vk"
)

func TestMain(m *testing.M) { vk.Main(m) }

// Scenario is one law instance.  Kind selects the law family; the other fields are
// its arguments (ints and strings are both always drawn so scenarios stay plain data).
type Scenario struct {
	Kind  string    `json:"kind"`
	I     [3]int    `json:"i"`
	S     [3]string `json:"s"`
	Proj  int       `json:"proj"`  // projection family member
	P     int       `json:"p"`     // projection / operation parameter (>= 1)
	Table [16]int   `json:"table"` // arbitrary binary function on residues mod 4 (From wrappers)
	E     int       `json:"e"`     // monoid identity (arbitrary, not necessarily neutral: the statement is about constructors)
	ES    string    `json:"es"`
	// Share: the strings are views of ONE piece of memory (s, s[:k], s[i:]) instead of separate allocations; the values
	// are unchanged, only where they live (an instance that compares data pointers would be fooled by s vs s[:k])
	Share bool `json:"share,omitempty"`
}

var kinds = []string{"eqInt", "eqString", "ordInt", "ordString", "contraEq", "contraOrd", "contraEqStr", "contraOrdStr", "contraOrdRaw", "contraEqRaw", "contraAny", "fromEq", "fromOrd", "monoidOp", "monoidSg", "monoidStr", "monoidNested", "semigroup"}

var boundary = []int{math.MinInt, math.MinInt + 1, -1, 0, 1, math.MaxInt - 1, math.MaxInt, math.MaxInt32, math.MinInt32, 1 << 32}
var pieces = []string{"a", "b", "ab", "A", "z", "é", "日", "\xff", "\x00", "\xc3", " ", "aa"}

func genInt() *rapid.Generator[int] {
	return rapid.OneOf(rapid.SampledFrom(boundary), rapid.Int(), rapid.IntRange(-4, 4))
}

func genStr() *rapid.Generator[string] {
	return rapid.Custom(func(t *rapid.T) string {
		ps := rapid.SliceOfN(rapid.SampledFrom(pieces), 0, 5).Draw(t, "pieces")
		return strings.Join(ps, "")
	})
}

func gen(t *rapid.T) Scenario {
	sc := Scenario{Kind: rapid.SampledFrom(kinds).Draw(t, "kind")}
	// triples with deliberate coincidences: b may equal a, c may equal a or b, strings may extend each other
	for k := 0; k < 3; k++ {
		sc.I[k] = genInt().Draw(t, "i")
		sc.S[k] = genStr().Draw(t, "s")
	}
	switch rapid.IntRange(0, 5).Draw(t, "coincide") {
	case 0:
		sc.I[1], sc.S[1] = sc.I[0], sc.S[0]
	case 1:
		sc.I[2], sc.S[2] = sc.I[1], sc.S[1]
	case 2:
		sc.S[1] = sc.S[0] + rapid.SampledFrom(pieces).Draw(t, "ext") // proper prefix
		sc.I[1] = sc.I[0] + 1                                        // neighbour (wraps at MaxInt: fine)
	}
	if rapid.IntRange(0, 4).Draw(t, "share") == 0 && len(sc.S[0]) > 0 {
		// prefixes / suffixes of the first string, living in its memory
		sc.Share = true
		sc.S[1] = sc.S[0][:rapid.IntRange(0, len(sc.S[0])).Draw(t, "prefixLen")]
		if rapid.Bool().Draw(t, "suffix") {
			sc.S[2] = sc.S[0][rapid.IntRange(0, len(sc.S[0])).Draw(t, "suffixFrom"):]
		} else {
			sc.S[2] = sc.S[0][:rapid.IntRange(0, len(sc.S[0])).Draw(t, "prefixLen2")]
		}
	}
	sc.Proj = rapid.IntRange(0, 4).Draw(t, "proj")
	sc.P = rapid.IntRange(1, 9).Draw(t, "p")
	for k := range sc.Table {
		sc.Table[k] = rapid.IntRange(-2, 2).Draw(t, "cell")
	}
	sc.E = genInt().Draw(t, "e")
	sc.ES = genStr().Draw(t, "es")
	return sc
}

func mod4(x int) int { return ((x % 4) + 4) % 4 }

func mod(x, m int) int { return ((x % m) + m) % m }

// projections int -> int (non-injective ones included, so that Equal/Compare on projections differ from the originals)
func projInt(sc Scenario) func(int) int {
	p := sc.P
	switch sc.Proj {
	case 0:
		return func(x int) int { return x / p }
	case 1:
		return func(x int) int { return -x }
	case 2:
		return func(x int) int { return ((x % p) + p) % p }
	case 3:
		return func(x int) int { return x ^ p }
	default:
		return func(x int) int { return x }
	}
}

// projections string -> int
func projStr(sc Scenario) func(string) int {
	switch sc.Proj {
	case 0:
		return func(s string) int { return len(s) }
	case 1:
		return func(s string) int {
			if s == "" {
				return -1
			}
			return int(s[0])
		}
	case 2:
		return func(s string) int { return strings.Count(s, "a") }
	case 3:
		return func(s string) int {
			if s == "" {
				return -1
			}
			return int(s[len(s)-1])
		}
	default:
		return func(s string) int { return len(s) % sc.P }
	}
}

func want3(c int) ord.Ordering {
	switch {
	case c < 0:
		return ord.LT
	case c > 0:
		return ord.GT
	}
	return ord.EQ
}

type pairArgs struct{ a, b int }

// Run checks the law instance; "" means it holds.
func Run(sc Scenario) string {
	a, b, c := sc.I[0], sc.I[1], sc.I[2]
	x, y, z := sc.S[0], sc.S[1], sc.S[2]
	if sc.Share {
		x = strings.Clone(x)
		if strings.HasPrefix(x, y) {
			y = x[:len(y)]
		}
		if strings.HasPrefix(x, z) {
			z = x[:len(z)]
		} else if strings.HasSuffix(x, z) {
			z = x[len(x)-len(z):]
		}
	}
	switch sc.Kind {
	case "eqInt":
		return eqLaws("eq.Int", eq.Int.Equal, a, b, c)
	case "eqString":
		return eqLaws("eq.String", eq.String.Equal, x, y, z)
	case "ordInt":
		if m := ordLaws("ord.Int", ord.Int.Compare, func(p, q int) int { return cmp.Compare(p, q) }, a, b, c); m != "" {
			return m
		}
		if (ord.Int.Compare(a, b) == ord.EQ) != eq.Int.Equal(a, b) {
			return fmt.Sprintf("ord.Int.Compare(%d,%d)==EQ disagrees with eq.Int.Equal", a, b)
		}
	case "ordString":
		if m := ordLaws("ord.String", ord.String.Compare, func(p, q string) int { return strings.Compare(p, q) }, x, y, z); m != "" {
			return m
		}
		if want3(bytes.Compare([]byte(x), []byte(y))) != ord.String.Compare(x, y) {
			return fmt.Sprintf("ord.String.Compare(%q,%q) disagrees with bytes.Compare", x, y)
		}
		if (ord.String.Compare(x, y) == ord.EQ) != eq.String.Equal(x, y) {
			return fmt.Sprintf("ord.String.Compare(%q,%q)==EQ disagrees with eq.String.Equal", x, y)
		}
	case "contraEq":
		f := projInt(sc)
		var seen []pairArgs
		base := eq.From[int](func(p, q int) bool { seen = append(seen, pairArgs{p, q}); return p <= q }) // asymmetric on purpose
		inst := eq.ContraMap[int, int]{Eq: base, ContraMap: pure.ContraMap[int, int](f)}
		got := inst.Equal(a, b)
		if got != (f(a) <= f(b)) {
			return fmt.Sprintf("eq.ContraMap.Equal(%d,%d)=%v, base on projections (%d,%d) gives %v", a, b, got, f(a), f(b), f(a) <= f(b))
		}
		if len(seen) != 1 || seen[0] != (pairArgs{f(a), f(b)}) {
			return fmt.Sprintf("eq.ContraMap.Equal(%d,%d): base instance saw %v, want exactly one call with (%d,%d)", a, b, seen, f(a), f(b))
		}
		// with a lawful base it must agree with == on projections
		inst2 := eq.ContraMap[int, int]{Eq: eq.Int, ContraMap: pure.ContraMap[int, int](f)}
		if inst2.Equal(a, b) != (f(a) == f(b)) {
			return fmt.Sprintf("eq.ContraMap{eq.Int}.Equal(%d,%d) != (f(a)==f(b))", a, b)
		}
	case "contraEqStr":
		f := projStr(sc)
		var seen []pairArgs
		base := eq.From[int](func(p, q int) bool { seen = append(seen, pairArgs{p, q}); return p <= q })
		inst := eq.ContraMap[int, string]{Eq: base, ContraMap: pure.ContraMap[int, string](f)}
		got := inst.Equal(x, y)
		if got != (f(x) <= f(y)) || len(seen) != 1 || seen[0] != (pairArgs{f(x), f(y)}) {
			return fmt.Sprintf("eq.ContraMap.Equal(%q,%q)=%v, base saw %v; want base(%d,%d)=%v", x, y, got, seen, f(x), f(y), f(x) <= f(y))
		}
	case "contraOrd":
		f := projInt(sc)
		var seen []pairArgs
		base := ord.From[int](func(p, q int) ord.Ordering { seen = append(seen, pairArgs{p, q}); return ord.Int.Compare(p, q) })
		inst := ord.ContraMap[int, int]{Ord: base, ContraMap: pure.ContraMap[int, int](f)}
		got := inst.Compare(a, b)
		if got != want3(cmp.Compare(f(a), f(b))) {
			return fmt.Sprintf("ord.ContraMap.Compare(%d,%d)=%d, base on projections (%d,%d) gives %d", a, b, got, f(a), f(b), want3(cmp.Compare(f(a), f(b))))
		}
		if len(seen) != 1 || seen[0] != (pairArgs{f(a), f(b)}) {
			return fmt.Sprintf("ord.ContraMap.Compare(%d,%d): base instance saw %v, want exactly one call with (%d,%d)", a, b, seen, f(a), f(b))
		}
	case "contraOrdStr":
		f := projStr(sc)
		var seen []pairArgs
		base := ord.From[int](func(p, q int) ord.Ordering { seen = append(seen, pairArgs{p, q}); return ord.Int.Compare(p, q) })
		inst := ord.ContraMap[int, string]{Ord: base, ContraMap: pure.ContraMap[int, string](f)}
		got := inst.Compare(x, y)
		if got != want3(cmp.Compare(f(x), f(y))) || len(seen) != 1 || seen[0] != (pairArgs{f(x), f(y)}) {
			return fmt.Sprintf("ord.ContraMap.Compare(%q,%q)=%d, base saw %v; want base(%d,%d)", x, y, got, seen, f(x), f(y))
		}
	case "contraOrdRaw":
		// the base is an arbitrary function into Ordering (a difference-style comparator, values outside {LT, EQ, GT} included):
		// ContraMap gives exactly the result of the base on the projected values
		f := projInt(sc)
		raw := func(p, q int) ord.Ordering {
			if sc.P%2 == 0 {
				return ord.Ordering(p - q)
			}
			return ord.Ordering(sc.Table[4*mod4(p)+mod4(q)])
		}
		inst := ord.ContraMap[int, int]{Ord: ord.From[int](raw), ContraMap: pure.ContraMap[int, int](f)}
		if got := inst.Compare(a, b); got != raw(f(a), f(b)) {
			return fmt.Sprintf("ord.ContraMap.Compare(%d,%d)=%d, the base instance gives %d on the projections (%d,%d)", a, b, got, raw(f(a), f(b)), f(a), f(b))
		}
	case "contraEqRaw":
		// an arbitrary (not even reflexive) base relation
		f := projInt(sc)
		raw := func(p, q int) bool { return sc.Table[4*mod4(p)+mod4(q)] > 0 }
		inst := eq.ContraMap[int, int]{Eq: eq.From[int](raw), ContraMap: pure.ContraMap[int, int](f)}
		if got := inst.Equal(a, b); got != raw(f(a), f(b)) {
			return fmt.Sprintf("eq.ContraMap.Equal(%d,%d)=%v, the base instance gives %v on the projections (%d,%d)", a, b, got, raw(f(a), f(b)), f(a), f(b))
		}
	case "contraAny":
		// the projected type is an interface: the nil interface is an argument like any other, the projection decides what it means
		pool := []any{nil, 0, 7, "", "xy", -1, 2.5}
		u, v := pool[mod(a, len(pool))], pool[mod(b, len(pool))]
		proj := func(x any) int {
			switch y := x.(type) {
			case nil:
				return 0
			case int:
				return y
			case string:
				return len(y)
			}
			return sc.P
		}
		if got, want := (eq.ContraMap[int, any]{Eq: eq.Int, ContraMap: pure.ContraMap[int, any](proj)}).Equal(u, v), proj(u) == proj(v); got != want {
			return fmt.Sprintf("eq.ContraMap[int, any].Equal(%#v, %#v)=%v, eq.Int on the projections (%d,%d) gives %v", u, v, got, proj(u), proj(v), want)
		}
		if got, want := (ord.ContraMap[int, any]{Ord: ord.Int, ContraMap: pure.ContraMap[int, any](proj)}).Compare(u, v), want3(cmp.Compare(proj(u), proj(v))); got != want {
			return fmt.Sprintf("ord.ContraMap[int, any].Compare(%#v, %#v)=%d, ord.Int on the projections (%d,%d) gives %d", u, v, got, proj(u), proj(v), want)
		}
	case "fromEq":
		f := func(p, q int) bool { return sc.Table[4*mod4(p)+mod4(q)] > 0 }
		if got := eq.From[int](f).Equal(a, b); got != f(a, b) {
			return fmt.Sprintf("eq.From(f).Equal(%d,%d)=%v, f gives %v", a, b, got, f(a, b))
		}
	case "fromOrd":
		f := func(p, q int) ord.Ordering { return ord.Ordering(sc.Table[4*mod4(p)+mod4(q)]) }
		if got := ord.From[int](f).Compare(a, b); got != f(a, b) {
			return fmt.Sprintf("ord.From(f).Compare(%d,%d)=%d, f gives %d", a, b, got, f(a, b))
		}
	case "monoidOp", "monoidSg":
		p := sc.P
		var seen []pairArgs
		op := func(u, v int) int { seen = append(seen, pairArgs{u, v}); return u*p - v } // non-commutative, non-associative: order is observable
		var m monoid.Monoid[int]
		if sc.Kind == "monoidOp" {
			m = monoid.FromOp(sc.E, op)
		} else {
			m = monoid.From[int](sc.E, semigroup.From[int](op))
		}
		if m.Empty() != sc.E {
			return fmt.Sprintf("%s: Empty()=%d, want the given element %d", sc.Kind, m.Empty(), sc.E)
		}
		got := m.Combine(a, b)
		if got != a*p-b || len(seen) != 1 || seen[0] != (pairArgs{a, b}) {
			return fmt.Sprintf("%s: Combine(%d,%d)=%d (op saw %v), want op(%d,%d)=%d called once", sc.Kind, a, b, got, seen, a, b, a*p-b)
		}
		if got2 := m.Combine(b, c); got2 != b*p-c {
			return fmt.Sprintf("%s: second Combine(%d,%d)=%d, want %d", sc.Kind, b, c, got2, b*p-c)
		}
		if m.Empty() != sc.E {
			return fmt.Sprintf("%s: Empty() changed after Combine: %d, want %d", sc.Kind, m.Empty(), sc.E)
		}
	case "monoidNested":
		// a monoid is a semigroup: lifting an already lifted monoid again must take the NEW empty element
		p := sc.P
		op := func(u, v int) int { return u*p - v }
		inner := monoid.FromOp(sc.E, op)
		mid := monoid.From[int](sc.I[2], inner)
		outer := monoid.From[int](sc.I[0], mid)
		if inner.Empty() != sc.E || mid.Empty() != sc.I[2] || outer.Empty() != sc.I[0] {
			return fmt.Sprintf("monoid.From over an already lifted monoid: Empty() = inner %d / middle %d / outer %d, the given elements were %d / %d / %d", inner.Empty(), mid.Empty(), outer.Empty(), sc.E, sc.I[2], sc.I[0])
		}
		if got := outer.Combine(a, b); got != a*p-b {
			return fmt.Sprintf("monoid.From over an already lifted monoid: Combine(%d,%d)=%d, want %d", a, b, got, a*p-b)
		}
	case "monoidStr":
		m := monoid.FromOp(sc.ES, func(u, v string) string { return u + "|" + v })
		if m.Empty() != sc.ES {
			return fmt.Sprintf("monoid.FromOp: Empty()=%q, want %q", m.Empty(), sc.ES)
		}
		if got := m.Combine(x, y); got != x+"|"+y {
			return fmt.Sprintf("monoid.FromOp: Combine(%q,%q)=%q", x, y, got)
		}
		m2 := monoid.From[string](sc.ES, semigroup.From[string](func(u, v string) string { return u + "|" + v }))
		if m2.Empty() != sc.ES || m2.Combine(x, y) != x+"|"+y {
			return fmt.Sprintf("monoid.From: Empty()=%q Combine(%q,%q)=%q", m2.Empty(), x, y, m2.Combine(x, y))
		}
	case "semigroup":
		p := sc.P
		sg := semigroup.From[int](func(u, v int) int { return u*p - v })
		if got := sg.Combine(a, b); got != a*p-b {
			return fmt.Sprintf("semigroup.From(f).Combine(%d,%d)=%d, f gives %d", a, b, got, a*p-b)
		}
	}
	return ""
}

func eqLaws[T comparable](name string, equal func(T, T) bool, a, b, c T) string {
	if equal(a, b) != (a == b) {
		return fmt.Sprintf("%s.Equal(%v,%v)=%v disagrees with ==", name, a, b, equal(a, b))
	}
	if !equal(a, a) || !equal(b, b) {
		return fmt.Sprintf("%s not reflexive on %v / %v", name, a, b)
	}
	if equal(a, b) != equal(b, a) {
		return fmt.Sprintf("%s not symmetric on (%v,%v)", name, a, b)
	}
	if equal(a, b) && equal(b, c) && !equal(a, c) {
		return fmt.Sprintf("%s not transitive on (%v,%v,%v)", name, a, b, c)
	}
	if equal(b, c) != (b == c) || equal(a, c) != (a == c) {
		return fmt.Sprintf("%s disagrees with == on (%v,%v,%v)", name, a, b, c)
	}
	return ""
}

func ordLaws[T any](name string, compare func(T, T) ord.Ordering, ref func(T, T) int, a, b, c T) string {
	for _, p := range [][2]T{{a, b}, {b, a}, {b, c}, {a, c}, {a, a}, {c, b}} {
		got := compare(p[0], p[1])
		if got != want3(ref(p[0], p[1])) {
			return fmt.Sprintf("%s.Compare(%v,%v)=%d, built-in ordering gives %d", name, p[0], p[1], got, want3(ref(p[0], p[1])))
		}
		if got != ord.LT && got != ord.EQ && got != ord.GT {
			return fmt.Sprintf("%s.Compare(%v,%v)=%d is none of LT/EQ/GT", name, p[0], p[1], got)
		}
	}
	if compare(a, b) != -compare(b, a) {
		return fmt.Sprintf("%s not antisymmetric on (%v,%v)", name, a, b)
	}
	if compare(a, b) != ord.GT && compare(b, c) != ord.GT && compare(a, c) == ord.GT {
		return fmt.Sprintf("%s not transitive on (%v,%v,%v)", name, a, b, c)
	}
	return ""
}

func nontrivial(sc Scenario) bool {
	switch sc.Kind {
	case "eqString", "ordString", "contraEqStr", "contraOrdStr", "monoidStr":
		return sc.S[0] != sc.S[1]
	}
	return sc.I[0] != sc.I[1]
}

func classes(sc Scenario) []string {
	cl := []string{"kind=" + sc.Kind}
	for _, v := range sc.I[:2] {
		for _, bd := range boundary {
			if v == bd {
				cl = append(cl, "int-boundary")
			}
		}
	}
	x, y := sc.S[0], sc.S[1]
	if x != y && (strings.HasPrefix(x, y) || strings.HasPrefix(y, x)) {
		cl = append(cl, "string-proper-prefix")
	}
	if strings.ContainsAny(x+y, "\xff\xc3") {
		cl = append(cl, "string-invalid-utf8")
	}
	if sc.I[0] == sc.I[1] {
		cl = append(cl, "ints-equal")
	}
	return cl
}

func check(t interface{ Fatalf(string, ...any) }, sc Scenario) {
	msg := Run(sc)
	vk.Record(sc, nontrivial(sc), classes(sc)...)
	if msg != "" {
		vk.Fail("C17", "TestC17", "", sc, msg)
		t.Fatalf("%s", msg)
	}
}

func TestC17(t *testing.T) {
	rapid.Check(t, func(t *rapid.T) { check(t, gen(t)) })
}

// TestC17Grid enumerates every law kind over the full grid of boundary ints and string pieces.
func TestC17Grid(t *testing.T) {
	strs := append([]string{""}, pieces...)
	strs = append(strs, "ab\xff", "aab", "日本", "éa")
	n := 0
	for _, k := range kinds {
		for _, a := range boundary {
			for _, b := range boundary {
				for ci, c := range []int{a, b, 0, math.MaxInt} {
					sc := Scenario{Kind: k, I: [3]int{a, b, c}, S: [3]string{strs[(n)%len(strs)], strs[(n/3)%len(strs)], strs[(n/7)%len(strs)]}, Proj: n % 5, P: 1 + n%9, E: c, ES: strs[ci]}
					for j := range sc.Table {
						sc.Table[j] = (n+j*j)%5 - 2
					}
					check(t, sc)
					n++
				}
			}
		}
	}
	for _, k := range []string{"eqString", "ordString", "contraEqStr", "contraOrdStr", "monoidStr"} {
		for _, x := range strs {
			for _, y := range strs {
				for _, z := range []string{x, y, "", "b"} {
					sc := Scenario{Kind: k, S: [3]string{x, y, z}, Proj: n % 5, P: 1 + n%9, ES: z}
					check(t, sc)
					n++
				}
			}
		}
	}
	vk.Exhaustive("all law kinds x all pairs of boundary ints x 4 third elements; string kinds x all pairs of 17 fixed strings (empty, prefixes, multi-byte, invalid UTF-8)")
}

func TestReplay(t *testing.T) {
	var sc Scenario
	ok, err := vk.LoadReplay(&sc)
	if !ok {
		t.Skip("no VERIF_REPLAY")
	}
	if err != nil {
		t.Fatalf("bad replay file: %v", err)
	}
	if msg := Run(sc); msg != "" {
		t.Fatalf("%s", msg)
	}
}
