package shapegen

// GenComposeProgram: shapes and requests for C04 (composed optics).  Filled in by compose_gen.go.
func GenComposeProgram(seed, n, firstIdx int) Program { return genCompose(seed, n, firstIdx) }
