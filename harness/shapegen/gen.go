package shapegen

import (
	"fmt"
	"sort"
	"strings"

	"pgregory.net/rapid"
)

// Request is one derivation (or lookup) the emitted program performs, with the model's verdict.
type Request struct {
	Prop      string         `json:"prop"`
	API       string         `json:"api"` // product spectrum listing shape join bimap getter setter lensm iso morphism
	N         int            `json:"n,omitempty"`
	ByName    bool           `json:"byName,omitempty"`
	Names     []string       `json:"names,omitempty"`
	Types     []string       `json:"types,omitempty"`
	PtrCont   bool           `json:"ptrContainer,omitempty"` // container type parameter is *S
	Cont      string         `json:"container,omitempty"`    // another non-struct container type parameter: []S, map[string]S, int, **S
	Shared    bool           `json:"shared,omitempty"`       // C01: the lens value is also used by two goroutines at once on two structures
	HiddenCap bool           `json:"hiddenCap,omitempty"`    // names passed as names[:k] with the missing ones behind the capacity
	Given     int            `json:"given,omitempty"`        // number of names actually passed (too few names)
	Expect    string         `json:"expect"`                 // focus | panic | panicOrCorrect
	Foci      []int          `json:"foci,omitempty"`         // expected listing entry per returned optic
	Why       string         `json:"why,omitempty"`
	NT        bool           `json:"nt"`
	Classes   []string       `json:"classes,omitempty"`
	Extra     map[string]any `json:"extra,omitempty"`
}

// Program is what one emitted package contains.
type Program struct {
	Seed     int         `json:"seed"`
	Shapes   []Shape     `json:"shapes"`
	Requests [][]Request `json:"requests"` // per shape
}

const lowerNames = "abcdefgh"
const upperNames = "ABCDEFGH"

type shapeGen struct {
	t          *rapid.T
	idx        int
	nextID     int
	sh         *Shape
	nestedBias bool        // C04: more named nested struct fields
	done       [][2]string // struct types already complete (candidates for reuse) with the kind of their first use
	reuses     int
}

func (g *shapeGen) fieldName(used map[string]bool) string {
	for tries := 0; ; tries++ {
		var n string
		if rapid.IntRange(0, 3).Draw(g.t, "unexported") == 0 {
			n = string(lowerNames[rapid.IntRange(0, len(lowerNames)-1).Draw(g.t, "ln")])
		} else {
			n = string(upperNames[rapid.IntRange(0, len(upperNames)-1).Draw(g.t, "un")])
		}
		if tries > 6 {
			n += fmt.Sprint(tries)
		}
		if !used[n] {
			used[n] = true
			return n
		}
	}
}

func (g *shapeGen) plainType() string {
	// class first: small scalars (padding holes), big values, zero-size, named types, everything
	switch rapid.IntRange(0, 9).Draw(g.t, "tclass") {
	case 0, 1:
		return rapid.SampledFrom([]string{"bool", "int8", "uint8", "int16", "uint16", "ut.MyBool", "ut.MyInt16", "ut.Tag", "[3]byte"}).Draw(g.t, "small")
	case 2:
		return rapid.SampledFrom([]string{"[0]int", "struct{}"}).Draw(g.t, "zero")
	case 3:
		return rapid.SampledFrom([]string{"[33]uint64", "[2]string", "[5]int16", "ut.Pt", "complex128"}).Draw(g.t, "big")
	case 4:
		if rapid.Bool().Draw(g.t, "twins") {
			// types that print alike but are different (same package name, other import path)
			return rapid.SampledFrom([]string{"*ut.Pt", "*altut.Pt", "altut.Pt", "ut.Pt", "[]altut.MyStr"}).Draw(g.t, "twin")
		}
	}
	return Universe[rapid.IntRange(0, len(Universe)-1).Draw(g.t, "utype")].Expr
}

func (g *shapeGen) genStruct(name string, depthLeft int, minFields int) {
	s := Struct{Name: name}
	g.sh.Structs = append(g.sh.Structs, s)
	self := len(g.sh.Structs) - 1
	used := map[string]bool{}
	n := rapid.IntRange(max(minFields, 1), 7).Draw(g.t, "nfields")
	var fields []Field
	for i := 0; i < n; i++ {
		kind := "plain"
		if depthLeft > 0 && g.nextID < 9 { // at most ten struct types per shape: readable findings, bounded compile time
			k := rapid.IntRange(0, 19).Draw(g.t, "kind")
			if g.nestedBias {
				switch {
				case k < 3:
					kind = "embed"
				case k < 4:
					kind = "pembed"
				case k < 9:
					kind = "nested"
				}
			} else {
				switch {
				case k < 4:
					kind = "embed"
				case k < 6:
					kind = "pembed"
				case k < 8:
					kind = "nested"
				case k < 9:
					kind = "embedns"
				}
			}
		} else if rapid.IntRange(0, 19).Draw(g.t, "kindleaf") == 0 {
			kind = "embedns"
		}
		var f Field
		switch kind {
		case "plain":
			f = Field{Name: g.fieldName(used), Kind: "plain", Type: g.plainType()}
			if rapid.IntRange(0, 11).Draw(g.t, "blank") == 0 {
				f.Name = "_" // a blank field: listed by hseq like any other, not addressable by a selector
			}
		case "embedns":
			e := embedNS[rapid.IntRange(0, len(embedNS)-1).Draw(g.t, "ens")]
			if used[e[1]] {
				f = Field{Name: g.fieldName(used), Kind: "plain", Type: g.plainType()}
			} else {
				used[e[1]] = true
				f = Field{Name: e[1], Kind: "embedns", Type: e[0]}
			}
		default:
			// a struct type that is already complete may be used again (the same type embedded twice in different
			// branches, embedded here and nested there): never an ancestor, so the type graph stays acyclic
			if len(g.done) > 0 && g.reuses < 3 && rapid.IntRange(0, 3).Draw(g.t, "reuse") == 0 {
				d := rapid.SampledFrom(g.done).Draw(g.t, "reused")
				tn := d[0]
				if rapid.Bool().Draw(g.t, "sameKind") {
					kind = d[1] // e.g. the same type embedded by pointer in two branches
				}
				fname := tn
				if kind == "nested" {
					fname = g.fieldName(used)
				}
				if !used[fname] {
					used[fname] = true
					g.reuses++
					f = Field{Name: fname, Kind: kind, Type: tn}
					break
				}
			}
			g.nextID++
			tn := fmt.Sprintf("E%d_%d", g.idx, g.nextID)
			if kind != "nested" && rapid.IntRange(0, 4).Draw(g.t, "unexportedType") == 0 {
				tn = fmt.Sprintf("e%d_%d", g.idx, g.nextID)
			}
			fname := tn
			if kind == "nested" {
				fname = g.fieldName(used)
			}
			used[fname] = true
			f = Field{Name: fname, Kind: kind, Type: tn}
			g.genStruct(tn, depthLeft-1, 1)
			g.done = append(g.done, [2]string{tn, kind})
		}
		fields = append(fields, f)
	}
	g.sh.Structs[self].Fields = fields
}

// addDiamond makes one struct type reachable along two branches: Root{...; A; B}, A{M|*M; ...}, B{...; M|*M}.
func (g *shapeGen) addDiamond() {
	name := func() string { g.nextID++; return fmt.Sprintf("E%d_%d", g.idx, g.nextID+20) }
	plain := func(used map[string]bool) Field {
		return Field{Name: g.fieldName(used), Kind: "plain", Type: g.plainType()}
	}
	m, a, b := name(), name(), name()
	ms := Struct{Name: m}
	um := map[string]bool{}
	for i := rapid.IntRange(1, 3).Draw(g.t, "mfields"); i > 0; i-- {
		ms.Fields = append(ms.Fields, plain(um))
	}
	kinds := []string{"pembed", "pembed", "embed"}
	ka, kb := rapid.SampledFrom(kinds).Draw(g.t, "ka"), rapid.SampledFrom(kinds).Draw(g.t, "kb")
	ua, ub := map[string]bool{m: true}, map[string]bool{m: true}
	as := Struct{Name: a, Fields: []Field{{Name: m, Kind: ka, Type: m}, plain(ua)}}
	bs := Struct{Name: b, Fields: []Field{plain(ub), {Name: m, Kind: kb, Type: m}}}
	g.sh.Structs = append(g.sh.Structs, as, bs, ms)
	root := &g.sh.Structs[0]
	outer := []string{"embed", "embed", "pembed"}
	root.Fields = append(root.Fields,
		Field{Name: a, Kind: rapid.SampledFrom(outer).Draw(g.t, "oa"), Type: a},
		Field{Name: b, Kind: rapid.SampledFrom(outer).Draw(g.t, "ob"), Type: b})
}

// tags are added in a second pass so that a tag key can collide with a field name elsewhere in the shape.
func (g *shapeGen) addTags() {
	var names []string
	for _, s := range g.sh.Structs {
		for _, f := range s.Fields {
			names = append(names, f.Name)
		}
	}
	for si := range g.sh.Structs {
		for fi := range g.sh.Structs[si].Fields {
			f := &g.sh.Structs[si].Fields[fi]
			switch rapid.IntRange(0, 11).Draw(g.t, "tag") {
			case 0:
				f.Tag = "k" + fmt.Sprint(si) + fmt.Sprint(fi)
			case 1:
				f.Tag = rapid.SampledFrom(names).Draw(g.t, "collide") // equal to some field's name
			case 2:
				f.Tag = ",omitempty" // empty key: the field name stays the key
			case 3:
				f.Tag = "k" + fmt.Sprint(fi) + ",opt" // same key may repeat across structs
			}
		}
	}
}

// GenShape draws one shape.  Depth of embedding is chosen first so that deep shapes are frequent.
func GenShape(t *rapid.T, idx int) Shape {
	g := &shapeGen{t: t, idx: idx, sh: &Shape{Root: fmt.Sprintf("S%d", idx)}}
	depth := rapid.SampledFrom([]int{0, 1, 2, 3, 3, 4}).Draw(t, "depth")
	g.genStruct(g.sh.Root, depth, 1)
	if rapid.IntRange(0, 5).Draw(t, "diamond") == 0 {
		g.addDiamond()
	}
	switch rapid.IntRange(0, 19).Draw(t, "extreme") {
	case 0:
		// a member larger than 64 KiB in front: every other field of the root lies beyond the reach of a 16-bit offset
		root := &g.sh.Structs[0]
		root.Fields = append([]Field{{Name: "Huge0", Kind: "plain", Type: "[9000]uint64"}}, root.Fields...)
	case 1:
		// more than 64 entries in front of everything else: positions in the listing beyond 63 (one-word bit sets)
		root := &g.sh.Structs[0]
		var wide []Field
		for i := 0; i < rapid.IntRange(64, 70).Draw(t, "wide"); i++ {
			wide = append(wide, Field{Name: fmt.Sprintf("W%d", i), Kind: "plain", Type: rapid.SampledFrom([]string{"bool", "int8", "uint8", "int16"}).Draw(t, "wt")})
		}
		root.Fields = append(wide, root.Fields...)
		g.nextID++
		tn := fmt.Sprintf("E%d_%d", g.idx, g.nextID+40)
		g.sh.Structs = append(g.sh.Structs, Struct{Name: tn, Fields: []Field{{Name: "PX", Kind: "plain", Type: "int32"}, {Name: "PY", Kind: "plain", Type: "string"}}})
		g.sh.Structs[0].Fields = append(g.sh.Structs[0].Fields, Field{Name: tn, Kind: "pembed", Type: tn})
	}
	g.addTags()
	return *g.sh
}

// ---------------------------------------------------------------------------------------------- requests

func contains(xs []string, x string) bool {
	for _, y := range xs {
		if y == x {
			return true
		}
	}
	return false
}

func (sh *Shape) entryClasses(l []Entry, i int) []string {
	e := l[i]
	cl := []string{fmt.Sprintf("depth=%d", min(e.Depth, 3))}
	if len(e.Name) > 0 && e.Name[0] >= 'a' && e.Name[0] <= 'z' {
		cl = append(cl, "unexported")
	}
	if e.Key != e.Name {
		cl = append(cl, "tagged")
	}
	if e.Type == "[0]int" || e.Type == "struct{}" {
		cl = append(cl, "zero-size")
	}
	return cl
}

// GenRequests draws the derivation requests for one shape.
func GenRequests(t *rapid.T, sh *Shape) []Request {
	l := sh.Listing(sh.Root)
	var reqs []Request
	keys, types := []string{}, []string{}
	for _, e := range l {
		if !contains(keys, e.Key) {
			keys = append(keys, e.Key)
		}
		if !contains(types, e.Type) {
			types = append(types, e.Type)
		}
	}
	nt := func(foci []int) bool {
		for _, i := range foci {
			if len(l) >= 3 && (i > 0 || l[i].Depth >= 1) {
				return true
			}
		}
		return false
	}
	// C03: one listing case per shape (the emitter expands it into every lookup)
	reqs = append(reqs, Request{Prop: "C03", API: "listing", Expect: "focus", NT: len(l) >= 5 && hasEmbedding(sh), Classes: []string{fmt.Sprintf("entries=%d+", len(l)/4*4)}})

	// by-name and by-type single foci
	type target struct {
		name  string
		typ   string
		entry int
	}
	var nameOK, typeOK []target // requests whose focus is inline (C01)
	for _, k := range keys {
		i := firstByKey(l, k)
		if l[i].Name == "_" {
			continue // no selector reaches a blank field: no ground truth for a lens on it
		}
		api := rapid.SampledFrom([]string{"product", "spectrum"}).Draw(t, "api")
		if l[i].ViaPointer {
			reqs = append(reqs, Request{Prop: "C02", API: api, N: 1, ByName: true, Names: []string{k}, Types: []string{l[i].Type}, Expect: "panicOrCorrect", Foci: []int{i}, Why: "focus lies behind an embedded pointer", NT: true, Classes: []string{"behind-pointer"}})
			continue
		}
		nameOK = append(nameOK, target{k, l[i].Type, i})
		dup := 0
		for _, e := range l {
			if e.Key == k {
				dup++
			}
		}
		r := Request{Prop: "C01", API: api, N: 1, ByName: true, Names: []string{k}, Types: []string{l[i].Type}, Expect: "focus", Foci: []int{i}, NT: nt([]int{i}), Classes: append(sh.entryClasses(l, i), "by-name", api)}
		if api == "product" && len(nameOK) <= 2 {
			r.Shared = true
		}
		reqs = append(reqs, r)
		if dup >= 2 {
			r2 := r
			r2.Prop, r2.NT, r2.Why = "C02", true, "name occurs at several depths: the first entry of the listing wins"
			r2.Classes = []string{"ambiguous-name"}
			reqs = append(reqs, r2)
		}
	}
	for _, ty := range types {
		i := firstByType(l, ty)
		if l[i].Name == "_" {
			continue
		}
		api := rapid.SampledFrom([]string{"product", "spectrum"}).Draw(t, "api")
		if l[i].ViaPointer {
			reqs = append(reqs, Request{Prop: "C02", API: api, N: 1, Types: []string{ty}, Expect: "panicOrCorrect", Foci: []int{i}, Why: "first field of that type lies behind an embedded pointer", NT: true, Classes: []string{"behind-pointer"}})
			continue
		}
		typeOK = append(typeOK, target{"", ty, i})
		reqs = append(reqs, Request{Prop: "C01", API: api, N: 1, Types: []string{ty}, Expect: "focus", Foci: []int{i}, NT: nt([]int{i}), Classes: append(sh.entryClasses(l, i), "by-type", api)})
	}
	// arity N: by name (any order, repeats allowed) and by type
	for k := 0; k < 4 && len(nameOK) > 0; k++ {
		n := rapid.IntRange(2, 9).Draw(t, "arity")
		api := rapid.SampledFrom([]string{"product", "spectrum", "product"}).Draw(t, "api")
		var r Request
		if rapid.Bool().Draw(t, "byName") || len(typeOK) == 0 {
			// prefer same-typed fields so that a positional slip does not trip the type guard
			pool := nameOK
			if rapid.Bool().Draw(t, "sameType") {
				byT := map[string][]target{}
				for _, x := range nameOK {
					byT[x.typ] = append(byT[x.typ], x)
				}
				var best []target
				var bt []string
				for ty := range byT {
					bt = append(bt, ty)
				}
				sort.Strings(bt)
				for _, ty := range bt {
					if len(byT[ty]) > len(best) {
						best = byT[ty]
					}
				}
				if len(best) >= 2 {
					pool = best
				}
			}
			r = Request{Prop: "C01", API: api, N: n, ByName: true, Expect: "focus"}
			for j := 0; j < n; j++ {
				x := pool[rapid.IntRange(0, len(pool)-1).Draw(t, "pick")]
				r.Names, r.Types, r.Foci = append(r.Names, x.name), append(r.Types, x.typ), append(r.Foci, x.entry)
			}
		} else {
			r = Request{Prop: "C01", API: api, N: n, Expect: "focus"}
			for j := 0; j < n; j++ {
				x := typeOK[rapid.IntRange(0, len(typeOK)-1).Draw(t, "pick")]
				r.Types, r.Foci = append(r.Types, x.typ), append(r.Foci, x.entry)
			}
		}
		r.NT = nt(r.Foci)
		r.Classes = []string{fmt.Sprintf("arity=%d", n), api}
		reqs = append(reqs, r)
	}

	// ---- C02: hostile requests
	absentKey := "Zz"
	for contains(keys, absentKey) {
		absentKey += "z"
	}
	var absentTypes []string
	for _, u := range Universe {
		if firstByType(l, u.Expr) < 0 {
			absentTypes = append(absentTypes, u.Expr)
		}
	}
	api := func() string { return rapid.SampledFrom([]string{"product", "spectrum"}).Draw(t, "api") }
	reqs = append(reqs, Request{Prop: "C02", API: api(), N: 1, ByName: true, Names: []string{absentKey}, Types: []string{"string"}, Expect: "panic", Why: "unknown name", NT: true, Classes: []string{"unknown-name"}})
	if len(absentTypes) > 0 {
		ty := rapid.SampledFrom(absentTypes).Draw(t, "absent")
		reqs = append(reqs, Request{Prop: "C02", API: api(), N: 1, Types: []string{ty}, Expect: "panic", Why: "a type no field has", NT: true, Classes: []string{"absent-type"}})
	}
	// near-miss types, by name and by type
	for k := 0; k < 3 && len(nameOK) > 0; k++ {
		x := nameOK[rapid.IntRange(0, len(nameOK)-1).Draw(t, "victim")]
		near := nearTypes(x.typ)
		ty := near[rapid.IntRange(0, len(near)-1).Draw(t, "near")]
		reqs = append(reqs, Request{Prop: "C02", API: api(), N: 1, ByName: true, Names: []string{x.name}, Types: []string{ty}, Expect: "panic", Why: fmt.Sprintf("field %s has type %s, requested %s", x.name, x.typ, ty), NT: true, Classes: []string{"near-miss-by-name"}})
		if firstByType(l, ty) < 0 {
			reqs = append(reqs, Request{Prop: "C02", API: api(), N: 1, Types: []string{ty}, Expect: "panic", Why: fmt.Sprintf("no field has type %s (a field has %s)", ty, x.typ), NT: true, Classes: []string{"near-miss-by-type"}})
		}
	}
	// a function-local type with the name of the field's own (package-level) struct type: by name and by type
	for _, x := range nameOK {
		isStruct := false
		for _, st := range sh.Structs {
			isStruct = isStruct || st.Name == x.typ
		}
		if !isStruct || rapid.IntRange(0, 1).Draw(t, "localNamesake") == 1 {
			continue
		}
		decl := "type " + x.typ + " struct{ A, B, C int64 }"
		reqs = append(reqs, Request{Prop: "C02", API: api(), N: 1, ByName: true, Names: []string{x.name}, Types: []string{x.typ}, Expect: "panic",
			Why: "the requested focus type is a function-local type named like the field's package-level type " + x.typ, NT: true, Classes: []string{"local-namesake-by-name"}, Extra: map[string]any{"localDecl": decl}})
		reqs = append(reqs, Request{Prop: "C02", API: api(), N: 1, Types: []string{x.typ}, Expect: "panic",
			Why: "no field has the function-local type named like the package-level type " + x.typ, NT: true, Classes: []string{"local-namesake-by-type"}, Extra: map[string]any{"localDecl": decl}})
		break
	}
	if len(nameOK) > 0 {
		// container type parameter *S
		x := nameOK[rapid.IntRange(0, len(nameOK)-1).Draw(t, "ptrVictim")]
		reqs = append(reqs, Request{Prop: "C02", API: api(), N: 1, ByName: true, Names: []string{x.name}, Types: []string{x.typ}, PtrCont: true, Expect: "panic", Why: "container type parameter is a pointer to the struct", NT: true, Classes: []string{"pointer-container"}})
		reqs = append(reqs, Request{Prop: "C02", API: api(), N: 1, Types: []string{x.typ}, PtrCont: true, Expect: "panic", Why: "container type parameter is a pointer to the struct (by type)", NT: true, Classes: []string{"pointer-container"}})
		for _, cont := range []string{"[]S", "map[string]S", "int", "**S"} {
			if rapid.IntRange(0, 1).Draw(t, "otherCont") == 0 {
				continue
			}
			r := Request{Prop: "C02", API: api(), N: 1, Types: []string{x.typ}, Cont: cont, Expect: "panic", Why: "container type parameter " + cont + " is not a struct", NT: true, Classes: []string{"non-struct-container"}}
			if rapid.Bool().Draw(t, "contByName") {
				r.ByName, r.Names = true, []string{x.name}
			}
			reqs = append(reqs, r)
		}
		// too few names, literal and with the missing names hidden behind the slice capacity
		for _, hidden := range []bool{false, true} {
			n := rapid.IntRange(2, 9).Draw(t, "arityFew")
			r := Request{Prop: "C02", API: api(), N: n, ByName: true, HiddenCap: hidden, Given: rapid.IntRange(1, n-1).Draw(t, "given"), Expect: "panic", Why: "fewer names than optics requested", NT: true, Classes: []string{"too-few-names"}}
			if hidden {
				r.Classes = []string{"too-few-names-hidden-capacity"}
			}
			for j := 0; j < n; j++ {
				y := nameOK[rapid.IntRange(0, len(nameOK)-1).Draw(t, "pick")]
				r.Names, r.Types = append(r.Names, y.name), append(r.Types, y.typ)
			}
			reqs = append(reqs, r)
		}
		// arity N with one bad component
		n := rapid.IntRange(2, 9).Draw(t, "arityBad")
		r := Request{Prop: "C02", API: api(), N: n, ByName: true, Expect: "panic", Why: "one of the names is unknown", NT: true, Classes: []string{"one-bad-component"}}
		bad := rapid.IntRange(0, n-1).Draw(t, "badpos")
		for j := 0; j < n; j++ {
			y := nameOK[rapid.IntRange(0, len(nameOK)-1).Draw(t, "pick")]
			if j == bad {
				if rapid.Bool().Draw(t, "badIsType") {
					near := nearTypes(y.typ)
					r.Names, r.Types = append(r.Names, y.name), append(r.Types, near[0])
					r.Why = "one component requests a near-miss type"
				} else {
					r.Names, r.Types = append(r.Names, absentKey), append(r.Types, y.typ)
				}
				continue
			}
			r.Names, r.Types = append(r.Names, y.name), append(r.Types, y.typ)
		}
		reqs = append(reqs, r)
		// the same refusals are owed by the constructors built on top of ForProductN: ForShapeN and BiMapS/B/I/F
		for k := 0; k < 2; k++ {
			n := rapid.IntRange(2, 9).Draw(t, "arityShape")
			r := Request{Prop: "C02", API: "shapeHostile", N: n, ByName: true, Expect: "panic", NT: true}
			mode := rapid.SampledFrom([]string{"unknown", "near", "few", "fewHidden"}).Draw(t, "shapeHostility")
			bad := rapid.IntRange(0, n-1).Draw(t, "badpos")
			for j := 0; j < n; j++ {
				y := nameOK[rapid.IntRange(0, len(nameOK)-1).Draw(t, "pick")]
				name, typ := y.name, y.typ
				if j == bad && mode == "unknown" {
					name = absentKey
				}
				if j == bad && mode == "near" {
					typ = nearTypes(y.typ)[0]
				}
				r.Names, r.Types = append(r.Names, name), append(r.Types, typ)
			}
			switch mode {
			case "few":
				r.Given = rapid.IntRange(1, n-1).Draw(t, "given")
			case "fewHidden":
				r.Given, r.HiddenCap = rapid.IntRange(1, n-1).Draw(t, "given"), true
			}
			r.Why = "ForShapeN: " + mode
			r.Classes = []string{"shape-" + mode}
			reqs = append(reqs, r)
		}
		for _, y := range nameOK {
			cls := ""
			if u := utype(y.typ); u != nil {
				cls = u.Class
			}
			if cls == "" {
				continue
			}
			// a field of the class exists; ask for it with another member of the class as the stored type
			var wrong string
			for _, c := range map[string][]string{"string": {"string", "ut.MyStr"}, "bytes": {"[]byte", "ut.MyBytes"}, "int": {"int8", "int16", "int32", "int64", "int", "ut.MyInt16", "ut.MyInt", "ut.MyInt64"}, "float": {"float32", "float64", "ut.MyF32", "ut.MyF64"}}[cls] {
				if c != y.typ {
					wrong = c
					break
				}
			}
			reqs = append(reqs, Request{Prop: "C02", API: "bimapxHostile", N: 1, ByName: true, Names: []string{y.name}, Types: []string{wrong, y.typ}, Expect: "panic", NT: true,
				Why: fmt.Sprintf("BiMapX: field %s has type %s, not %s", y.name, y.typ, wrong), Classes: []string{"bimapx-wrong-stored-type"}, Extra: map[string]any{"class": cls}})
			reqs = append(reqs, Request{Prop: "C02", API: "bimapxHostile", N: 1, ByName: true, Names: []string{absentKey}, Types: []string{y.typ, y.typ}, Expect: "panic", NT: true,
				Why: "BiMapX: unknown name", Classes: []string{"bimapx-unknown-name"}, Extra: map[string]any{"class": cls}})
			break
		}
		// reflector given the wrong dynamic argument
		reqs = append(reqs, Request{Prop: "C02", API: "rejects", N: 1, ByName: true, Names: []string{x.name}, Types: []string{x.typ}, Expect: "focus", Foci: []int{x.entry}, Why: "Gett/Putt with anything but a pointer to the container", NT: true, Classes: []string{"reflector-wrong-argument"}})
	}
	return reqs
}

func hasEmbedding(sh *Shape) bool {
	for _, s := range sh.Structs {
		for _, f := range s.Fields {
			if f.Kind == "embed" || f.Kind == "pembed" {
				return true
			}
		}
	}
	return false
}

func nearTypes(t string) []string {
	if u := utype(t); u != nil {
		return u.Near
	}
	if strings.HasPrefix(t, "*") {
		return []string{t[1:], "*int"} // pointer-embedded struct: value type
	}
	return []string{"*" + t, "ut.Pt"} // generated struct type
}

// GenProgram draws a whole program: n shapes with their requests.
func GenProgram(seed, n, firstIdx int) Program {
	return rapid.Custom(func(t *rapid.T) Program {
		p := Program{Seed: seed}
		for i := 0; i < n; i++ {
			sh := GenShape(t, firstIdx+i)
			p.Shapes = append(p.Shapes, sh)
			p.Requests = append(p.Requests, GenRequests(t, &sh))
		}
		return p
	}).Example(seed)
}
