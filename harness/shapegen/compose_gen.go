package shapegen

import (
	"fmt"
	"strings"

	"pgregory.net/rapid"
)

// ---- C04: requests over composed optics

// hop is one named-field step of a Join chain: a lens from struct From to the field reached by Path.
type hop struct {
	From string   // struct type the lens starts from
	Key  string   // lookup key used for the derivation
	Type string   // focus type
	Path []string // selector path inside From
}

func isLeafEntry(sh *Shape, e Entry) bool {
	// a field that is not itself an embedded struct (those overlap their own members)
	for _, s := range sh.Structs {
		if s.Name == strip(e.Type) {
			return false
		}
	}
	return true
}

func structNames(sh *Shape) map[string]bool {
	m := map[string]bool{}
	for _, s := range sh.Structs {
		m[s.Name] = true
	}
	return m
}

// joinChains enumerates chains root -> nested struct field -> ... -> leaf, each hop derived by name.
func joinChains(sh *Shape, from string, depth int) [][]hop {
	l := sh.Listing(from)
	names := structNames(sh)
	var out [][]hop
	for i, e := range l {
		if e.ViaPointer || firstByKey(l, e.Key) != i || contains(e.Path, "_") {
			continue
		}
		h := hop{From: from, Key: e.Key, Type: e.Type, Path: e.Path}
		if names[e.Type] {
			// a struct-typed field (nested or value-embedded): continue inside it
			if depth < 3 {
				for _, rest := range joinChains(sh, e.Type, depth+1) {
					out = append(out, append([]hop{h}, rest...))
				}
			}
			continue
		}
		if depth > 0 {
			out = append(out, []hop{h})
		}
	}
	return out
}

func genCompose(seed, n, firstIdx int) Program {
	return rapid.Custom(func(t *rapid.T) Program {
		p := Program{Seed: seed}
		for i := 0; i < n; i++ {
			sh := GenShapeNested(t, firstIdx+i)
			p.Shapes = append(p.Shapes, sh)
		}
		for i := range p.Shapes {
			var other *Shape
			if len(p.Shapes) > 1 {
				other = &p.Shapes[(i+1)%len(p.Shapes)]
			}
			p.Requests = append(p.Requests, GenComposeRequests(t, &p.Shapes[i], other))
		}
		return p
	}).Example(seed)
}

// GenShapeNested is GenShape with more named nested struct fields (Join needs them).
func GenShapeNested(t *rapid.T, idx int) Shape {
	g := &shapeGen{t: t, idx: idx, sh: &Shape{Root: fmt.Sprintf("S%d", idx)}, nestedBias: true}
	depth := rapid.SampledFrom([]int{1, 2, 3, 3}).Draw(t, "depth")
	g.genStruct(g.sh.Root, depth, 2)
	// every conversion class (BiMapS/B/I/F) has a field to work on: add a root field of the classes that are missing
	have := map[string]bool{}
	used := map[string]bool{}
	for _, f := range g.sh.Structs[0].Fields {
		used[f.Name] = true
		if f.Kind == "plain" {
			have[classOf(f.Type)] = true
		}
	}
	for _, cls := range []string{"string", "bytes", "int", "float"} {
		if !have[cls] {
			views := classTypes[cls]
			g.sh.Structs[0].Fields = append(g.sh.Structs[0].Fields, Field{Name: g.fieldName(used), Kind: "plain", Type: views[rapid.IntRange(0, len(views)-1).Draw(t, "classField")]})
		}
	}
	// two more fields of ONE type of a drawn class: the second can only be meant by its name
	{
		cls := rapid.SampledFrom([]string{"string", "bytes", "int", "float"}).Draw(t, "pairClass")
		views := classTypes[cls]
		ty := views[rapid.IntRange(0, len(views)-1).Draw(t, "pairType")]
		for k := 0; k < 2; k++ {
			g.sh.Structs[0].Fields = append(g.sh.Structs[0].Fields, Field{Name: g.fieldName(used), Kind: "plain", Type: ty})
		}
	}
	g.addTags()
	return *g.sh
}

func classOf(typ string) string {
	if u := utype(typ); u != nil {
		return u.Class
	}
	return ""
}

var classTypes = map[string][]string{
	"string": {"string", "ut.MyStr"},
	"bytes":  {"[]byte", "ut.MyBytes"},
	"int":    {"int8", "int16", "int32", "int64", "int", "ut.MyInt16", "ut.MyInt", "ut.MyInt64"},
	"float":  {"float32", "float64", "ut.MyF32", "ut.MyF64"},
}

func GenComposeRequests(t *rapid.T, sh *Shape, other *Shape) []Request {
	var reqs []Request
	l := sh.Listing(sh.Root)
	type target struct {
		key, typ string
		entry    int
	}
	var nameOK []target
	for i, e := range l {
		if !e.ViaPointer && firstByKey(l, e.Key) == i && !contains(e.Path, "_") {
			nameOK = append(nameOK, target{e.Key, e.Type, i})
		}
	}
	// Join chains (depth 2 and 3; depth 3 in both associations)
	chains := joinChains(sh, sh.Root, 0)
	for k := 0; k < 8 && len(chains) > 0; k++ {
		c := chains[rapid.IntRange(0, len(chains)-1).Draw(t, "chain")]
		var hops []map[string]any
		for _, h := range c {
			hops = append(hops, map[string]any{"from": h.From, "key": h.Key, "type": h.Type, "path": h.Path})
		}
		assoc := "left"
		if len(c) >= 3 && rapid.Bool().Draw(t, "assoc") {
			assoc = "right"
		}
		reqs = append(reqs, Request{Prop: "C04", API: "join", Expect: "focus", NT: len(c) >= 3 || promoted(c), Classes: []string{fmt.Sprintf("join-depth=%d", len(c)), "assoc=" + assoc},
			Extra: map[string]any{"hops": hops, "assoc": assoc, "shared": k < 2}})
	}
	// converting lenses on scalar fields
	for k := 0; k < 6 && len(nameOK) > 0; k++ {
		x := nameOK[rapid.IntRange(0, len(nameOK)-1).Draw(t, "field")]
		cls := classOf(x.typ)
		switch rapid.IntRange(0, 3).Draw(t, "conv") {
		case 0:
			if cls == "int" || cls == "string" {
				reqs = append(reqs, Request{Prop: "C04", API: "bimap", N: 1, ByName: true, Names: []string{x.key}, Types: []string{x.typ}, Foci: []int{x.entry}, Expect: "focus", NT: true,
					Classes: []string{"bimap-" + cls}, Extra: map[string]any{"class": cls, "k": rapid.IntRange(1, 9).Draw(t, "k")}})
			}
		case 1:
			if cls != "" {
				views := classTypes[cls]
				v := views[rapid.IntRange(0, len(views)-1).Draw(t, "view")]
				reqs = append(reqs, Request{Prop: "C04", API: "bimapx", N: 1, ByName: rapid.Bool().Draw(t, "byName"), Names: []string{x.key}, Types: []string{x.typ, v}, Foci: []int{x.entry}, Expect: "focus", NT: v != x.typ,
					Classes: []string{"bimapX-" + cls}, Extra: map[string]any{"class": cls}})
			}
		case 2:
			reqs = append(reqs, Request{Prop: "C04", API: "getter", N: 1, ByName: true, Names: []string{x.key}, Types: []string{x.typ}, Foci: []int{x.entry}, Expect: "focus", NT: true, Classes: []string{"getter"}})
		default:
			if cls == "int" || cls == "string" {
				reqs = append(reqs, Request{Prop: "C04", API: "setter", N: 1, ByName: true, Names: []string{x.key}, Types: []string{x.typ}, Foci: []int{x.entry}, Expect: "focus", NT: true, Classes: []string{"setter-" + cls},
					Extra: map[string]any{"class": cls, "k": rapid.IntRange(1, 9).Draw(t, "k")}})
			}
		}
	}
	// one converting lens per class that has a field, whatever the draws above picked
	for _, cls := range []string{"string", "bytes", "int", "float"} {
		var cands []target
		for _, x := range nameOK {
			if classOf(x.typ) == cls {
				cands = append(cands, x)
			}
		}
		if len(cands) == 0 {
			continue
		}
		x := cands[rapid.IntRange(0, len(cands)-1).Draw(t, "classVictim")]
		byName := rapid.Bool().Draw(t, "byName")
		for _, y := range cands {
			if firstByType(l, y.typ) != y.entry {
				x, byName = y, true // a field that is NOT the first of its type can only be meant by its name
				break
			}
		}
		views := classTypes[cls]
		v := views[rapid.IntRange(0, len(views)-1).Draw(t, "view")]
		reqs = append(reqs, Request{Prop: "C04", API: "bimapx", N: 1, ByName: byName, Names: []string{x.key}, Types: []string{x.typ, v}, Foci: []int{x.entry}, Expect: "focus", NT: v != x.typ,
			Classes: []string{"bimapX-" + cls}, Extra: map[string]any{"class": cls}})
	}
	// product shapes: N distinct leaf fields of mixed types, by name
	var leaves []target
	for _, x := range nameOK {
		if isLeafEntry(sh, l[x.entry]) {
			leaves = append(leaves, x)
		}
	}
	for k := 0; k < 3 && len(leaves) >= 2; k++ {
		n := rapid.IntRange(2, min(9, len(leaves))).Draw(t, "shapeArity")
		perm := rapid.Permutation(leaves).Draw(t, "perm")[:n]
		r := Request{Prop: "C04", API: "shape", N: n, ByName: true, Expect: "focus"}
		sizes := map[string]bool{}
		for _, x := range perm {
			r.Names, r.Types, r.Foci = append(r.Names, x.key), append(r.Types, x.typ), append(r.Foci, x.entry)
			sizes[x.typ] = true
		}
		r.NT = len(sizes) >= 2
		r.Classes = []string{fmt.Sprintf("shape-arity=%d", n)}
		reqs = append(reqs, r)
	}
	// map lens (independent of the shape)
	reqs = append(reqs, Request{Prop: "C04", API: "lensm", Expect: "focus", NT: true, Classes: []string{"map-lens"}, Extra: map[string]any{"key": rapid.SampledFrom([]string{"a", "b", "k", ""}).Draw(t, "mapkey"), "named": rapid.Bool().Draw(t, "namedMap")}})
	// iso / morphism with the next shape of the program
	if other != nil {
		lo := other.Listing(other.Root)
		type pr struct{ a, b int }
		var cands []pr
		usedB := map[int]bool{}
		for _, x := range leaves {
			for j, e := range lo {
				if !e.ViaPointer && e.Type == x.typ && firstByKey(lo, e.Key) == j && isLeafEntry(other, e) && !usedB[j] && !contains(e.Path, "_") {
					cands = append(cands, pr{x.entry, j})
					usedB[j] = true
					break
				}
			}
		}
		// degenerate lists: no entry at all, a lone nil, only nils - a Morphism that transfers nothing and touches nothing
		for _, list := range [][]int{{}, {-1}, {-1, -1}} {
			reqs = append(reqs, Request{Prop: "C04", API: "morphism", Expect: "focus", NT: false, Classes: []string{fmt.Sprintf("only-nil-entries=%d", len(list))},
				Extra: map[string]any{"other": other.Root, "pairs": []map[string]any{}, "list": append([]int{}, list...)}})
		}
		if len(cands) > 0 {
			k := rapid.IntRange(1, min(6, len(cands))).Draw(t, "nisos")
			sel := rapid.Permutation(cands).Draw(t, "isoperm")[:k]
			// list with nil entries and repeats
			var list []int // index into sel, -1 = nil
			for i := range sel {
				list = append(list, i)
			}
			extra := rapid.IntRange(0, 3).Draw(t, "extraEntries")
			for i := 0; i < extra; i++ {
				pos := rapid.IntRange(0, len(list)).Draw(t, "pos")
				v := -1
				if rapid.IntRange(0, 2).Draw(t, "repeat") == 0 {
					v = rapid.IntRange(0, len(sel)-1).Draw(t, "which")
				}
				list = append(list[:pos], append([]int{v}, list[pos:]...)...)
			}
			var pairs []map[string]any
			for _, c := range sel {
				pairs = append(pairs, map[string]any{"skey": l[c.a].Key, "spath": l[c.a].Path, "tkey": lo[c.b].Key, "tpath": lo[c.b].Path, "type": l[c.a].Type})
			}
			nils, nonnil := 0, map[int]bool{}
			for _, v := range list {
				if v < 0 {
					nils++
				} else {
					nonnil[v] = true
				}
			}
			reqs = append(reqs, Request{Prop: "C04", API: "morphism", Expect: "focus", NT: len(nonnil) >= 2 && nils >= 1, Classes: []string{fmt.Sprintf("isos=%d", len(sel)), fmt.Sprintf("nil-entries=%d", min(nils, 2))},
				Extra: map[string]any{"other": other.Root, "pairs": pairs, "list": list}})
			if len(sel) >= 3 {
				// two morphisms that extend ONE base morphism (built from a slice with spare capacity) by different isos:
				// building the second must not change the first
				reqs = append(reqs, Request{Prop: "C04", API: "morphnest", Expect: "focus", NT: true, Classes: []string{"nested-morphism-shared-base"},
					Extra: map[string]any{"other": other.Root, "pairs": pairs, "base": len(sel) - 2, "withNil": rapid.Bool().Draw(t, "withNil")}})
			}
			// a single Iso as well
			reqs = append(reqs, Request{Prop: "C04", API: "morphism", Expect: "focus", NT: false, Classes: []string{"single-iso"},
				Extra: map[string]any{"other": other.Root, "pairs": pairs[:1], "list": []int{0}, "single": true}})
		}
	}
	return reqs
}

// promoted: some hop focuses a field promoted from an embedded struct (path longer than one selector)
func promoted(c []hop) bool {
	for _, h := range c {
		if len(h.Path) > 1 {
			return true
		}
	}
	return false
}

// ---- emission of C04 requests

func asStrings(v any) []string {
	var out []string
	switch x := v.(type) {
	case []string:
		return x
	case []any:
		for _, e := range x {
			out = append(out, fmt.Sprint(e))
		}
	}
	return out
}

func asInt(v any) int {
	switch x := v.(type) {
	case int:
		return x
	case float64:
		return int(x)
	}
	return 0
}

func asInts(v any) []int {
	var out []int
	switch x := v.(type) {
	case []int:
		return x
	case []any:
		for _, e := range x {
			out = append(out, asInt(e))
		}
	}
	return out
}

func asMaps(v any) []map[string]any {
	var out []map[string]any
	switch x := v.(type) {
	case []map[string]any:
		return x
	case []any:
		for _, e := range x {
			out = append(out, e.(map[string]any))
		}
	}
	return out
}

// view value generators on which the automatic conversions are mutually inverse
func viewGen(cls, b string) string {
	switch cls {
	case "int":
		return fmt.Sprintf("func(rt *rapid.T) %s { return %s(rapid.IntRange(-100, 100).Draw(rt, \"view\")) }", b, b)
	case "float":
		return fmt.Sprintf("func(rt *rapid.T) %s { return %s(float32(rapid.IntRange(-4000, 4000).Draw(rt, \"view\")) / 8) }", b, b)
	case "string":
		return fmt.Sprintf("func(rt *rapid.T) %s { return %s(rapid.SampledFrom([]string{\"\", \"a\", \"golem\", \"\\xff\\x00\", \"a longer string than that\"}).Draw(rt, \"view\")) }", b, b)
	default:
		return fmt.Sprintf("func(rt *rapid.T) %s { return %s(rapid.SliceOfN(rapid.Byte(), 0, 5).Draw(rt, \"view\")) }", b, b)
	}
}

func emitCompose(w func(string, ...any), sh *Shape, l []Entry, r Request) bool {
	S := sh.Root
	switch r.API {
	case "join":
		hops := asMaps(r.Extra["hops"])
		var full []string
		for i, h := range hops {
			w("\t\tvar l%d optics.Lens[%s, %s]\n", i, h["from"], h["type"])
			w("\t\tif !optcheck.MustNotPanic(h, \"ForProduct1[%s, %s]('%s')\", func() { l%d = optics.ForProduct1[%s, %s](%q) }) {\n\t\t\treturn\n\t\t}\n", h["from"], h["type"], h["key"], i, h["from"], h["type"], h["key"])
			full = append(full, asStrings(h["path"])...)
		}
		last := hops[len(hops)-1]["type"]
		expr := "optics.Join(l0, l1)"
		if len(hops) == 3 {
			if r.Extra["assoc"] == "right" {
				expr = "optics.Join(l0, optics.Join(l1, l2))"
			} else {
				expr = "optics.Join(optics.Join(l0, l1), l2)"
			}
		} else if len(hops) == 4 {
			expr = "optics.Join(optics.Join(l0, l1), optics.Join(l2, l3))"
		}
		// the intermediate structs are copied out and back: their padding may change
		var loose []string
		var prefix []string
		for _, h := range hops[:len(hops)-1] {
			prefix = append(prefix, asStrings(h["path"])...)
			loose = append(loose, fmt.Sprintf("optcheck.L(&%s)", selector(prefix)))
		}
		w("\t\tjoined := %s\n", expr)
		w("\t\toptcheck.Composed(h, %q, joined, func(p *%s) *%s { return &%s }, func(p *%s) []optcheck.Loose { return []optcheck.Loose{%s} })\n",
			expr, S, last, selector(full), S, strings.Join(loose, ", "))
		if r.Extra["shared"] == true {
			w("\t\toptcheck.Shared(h, %q, joined, func(p *%s) *%s { return &%s }, func(p *%s) []optcheck.Loose { return []optcheck.Loose{%s} })\n",
				expr, S, last, selector(full), S, strings.Join(loose, ", "))
		}
		return true
	case "bimap", "setter":
		typ, key, path := r.Types[0], r.Names[0], selector(l[r.Foci[0]].Path)
		k := asInt(r.Extra["k"])
		var fm, cm, gen, view string
		if r.Extra["class"] == "int" {
			view = "int64"
			fm = fmt.Sprintf("func(a %s) int64 { return int64(a) + %d }", typ, k)
			cm = fmt.Sprintf("func(b int64) %s { return %s(b - %d) }", typ, typ, k)
			gen = fmt.Sprintf("func(rt *rapid.T) int64 { return int64(rapid.IntRange(-100, 100).Draw(rt, \"view\")) + %d }", k)
		} else {
			view = "string"
			fm = fmt.Sprintf("func(a %s) string { return optcheck.Reverse(string(a)) }", typ)
			cm = fmt.Sprintf("func(b string) %s { return %s(optcheck.Reverse(b)) }", typ, typ)
			gen = "func(rt *rapid.T) string { return rapid.SampledFrom([]string{\"\", \"ab\", \"golem\", \"x\\x00y\"}).Draw(rt, \"view\") }"
		}
		w("\t\tvar base optics.Lens[%s, %s]\n", S, typ)
		w("\t\tif !optcheck.MustNotPanic(h, \"ForProduct1\", func() { base = optics.ForProduct1[%s, %s](%q) }) {\n\t\t\treturn\n\t\t}\n", S, typ, key)
		if r.API == "bimap" {
			w("\t\toptcheck.BiMap(h, \"BiMap\", optics.BiMap(base, %s, %s), func(p *%s) *%s { return &%s }, %s, %s, %s)\n", fm, cm, S, typ, path, fm, cm, gen)
		} else {
			w("\t\toptcheck.Setter(h, \"Setter\", optics.Setter(base, %s), func(p *%s) *%s { return &%s }, %s)\n", cm, S, typ, path, cm)
			_ = view
		}
		return true
	case "bimapx":
		a, b, key, path := r.Types[0], r.Types[1], r.Names[0], selector(l[r.Foci[0]].Path)
		cls := fmt.Sprint(r.Extra["class"])
		fn := map[string]string{"string": "BiMapS", "bytes": "BiMapB", "int": "BiMapI", "float": "BiMapF"}[cls]
		arg := fmt.Sprintf("%q", key)
		if !r.ByName {
			// by type: only valid when the field is the first of its type
			if firstByType(l, a) != r.Foci[0] {
				arg = fmt.Sprintf("%q", key)
			} else {
				arg = ""
			}
		}
		w("\t\tvar x optics.Lens[%s, %s]\n", S, b)
		w("\t\tif !optcheck.MustNotPanic(h, \"optics.%s[%s, %s, %s](%s)\", func() { x = optics.%s[%s, %s, %s](%s) }) {\n\t\t\treturn\n\t\t}\n", fn, S, a, b, strings.ReplaceAll(arg, "\"", "'"), fn, S, a, b, arg)
		w("\t\toptcheck.BiMap(h, \"%s[%s -> %s]\", x, func(p *%s) *%s { return &%s }, func(v %s) %s { return %s(v) }, func(v %s) %s { return %s(v) }, %s)\n", fn, a, b, S, a, path, a, b, b, b, a, a, viewGen(cls, b))
		return true
	case "getter":
		typ, key, path := r.Types[0], r.Names[0], selector(l[r.Foci[0]].Path)
		w("\t\tvar base optics.Lens[%s, %s]\n", S, typ)
		w("\t\tif !optcheck.MustNotPanic(h, \"ForProduct1\", func() { base = optics.ForProduct1[%s, %s](%q) }) {\n\t\t\treturn\n\t\t}\n", S, typ, key)
		w("\t\tf := func(a %s) string { return fmt.Sprintf(\"%%T/%%d\", a, unsafe.Sizeof(a)) + optcheck.Hex(a) }\n", typ)
		w("\t\toptcheck.Getter(h, \"Getter\", optics.Getter(base, f), func(p *%s) *%s { return &%s }, f)\n", S, typ, path)
		return true
	case "shape":
		n := r.N
		w("\t\tvar sh optics.Lens%d%s\n", n, typeArgs(S, r.Types))
		w("\t\tif !optcheck.MustNotPanic(h, \"ForShape%d\", func() { sh = optics.ForShape%d%s(%s) }) {\n\t\t\treturn\n\t\t}\n", n, n, typeArgs(S, r.Types), quoteAll(r.Names))
		w("\t\tar := optcheck.NewArena[%s](h.RT)\n\t\tp := ar.P()\n", S)
		var gs, vs, ps []string
		for i := range r.Types {
			gs = append(gs, fmt.Sprintf("g%d", i))
			vs = append(vs, fmt.Sprintf("v%d", i))
			ps = append(ps, fmt.Sprintf("optcheck.P(&%s, &v%d)", selector(l[r.Foci[i]].Path), i))
		}
		w("\t\tbefore := ar.Snapshot()\n")
		w("\t\t%s := sh.Get(p)\n", strings.Join(gs, ", "))
		for i := range r.Types {
			w("\t\toptcheck.SameAt(h, \"ForShape%d.Get component %d\", &g%d, &%s)\n", n, i+1, i, selector(l[r.Foci[i]].Path))
		}
		w("\t\toptcheck.PutCheck(h, \"ForShape%d.Get must not write\", ar, before, true)\n", n)
		for i, ty := range r.Types {
			w("\t\tv%d := optcheck.Draw[%s](h.RT)\n", i, ty)
		}
		w("\t\tret := sh.Put(p, %s)\n", strings.Join(vs, ", "))
		w("\t\toptcheck.PutCheck(h, \"ForShape%d.Put(positional)\", ar, before, ret == p, %s)\n", n, strings.Join(ps, ", "))
		// reading back gives the same tuple
		w("\t\t%s = sh.Get(p)\n", strings.Join(gs, ", "))
		for i := range r.Types {
			w("\t\toptcheck.SameAt(h, \"ForShape%d.Get after Put, component %d\", &g%d, &v%d)\n", n, i+1, i, i)
		}
		return true
	case "lensm":
		key := fmt.Sprint(r.Extra["key"])
		if r.Extra["named"] == true {
			w("\t\toptcheck.MapLens(h, \"NewLensM[ut.MyMap]\", optics.NewLensM[ut.MyMap, string, int](%q), %q)\n", key, key)
		} else {
			w("\t\toptcheck.MapLens(h, \"NewLensM[map[string]int]\", optics.NewLensM[map[string]int, string, int](%q), %q)\n", key, key)
		}
		return true
	case "morphnest":
		T := fmt.Sprint(r.Extra["other"])
		pairs := asMaps(r.Extra["pairs"])
		nb := asInt(r.Extra["base"])
		pairLit := func(p map[string]any) string {
			return fmt.Sprintf("{Src: func(p *%s) unsafe.Pointer { return unsafe.Pointer(&%s) }, Dst: func(p *%s) unsafe.Pointer { return unsafe.Pointer(&%s) }, Type: optcheck.T[%s](), Scramble: func(rt *rapid.T, p *%s) { %s = optcheck.Draw[%s](rt) }}",
				S, selector(asStrings(p["spath"])), T, selector(asStrings(p["tpath"])), p["type"], S, selector(asStrings(p["spath"])), p["type"])
		}
		for i, p := range pairs {
			ty := p["type"]
			w("\t\tvar sa%d optics.Lens[%s, %s]\n\t\tvar ta%d optics.Lens[%s, %s]\n", i, S, ty, i, T, ty)
			w("\t\tif !optcheck.MustNotPanic(h, \"ForProduct1 (iso %d)\", func() { sa%d = optics.ForProduct1[%s, %s](%q); ta%d = optics.ForProduct1[%s, %s](%q) }) {\n\t\t\treturn\n\t\t}\n", i, i, S, ty, p["skey"], i, T, ty, p["tkey"])
			w("\t\tiso%d := optics.Iso(sa%d, ta%d)\n", i, i, i)
		}
		var baseIsos, basePairs []string
		for i := 0; i < nb; i++ {
			baseIsos = append(baseIsos, fmt.Sprintf("iso%d", i))
			basePairs = append(basePairs, pairLit(pairs[i]))
		}
		w("\t\tlist := make([]optics.Isomorphism[%s, %s], 0, 8) // spare capacity behind the spread slice\n\t\tlist = append(list, %s)\n", S, T, strings.Join(baseIsos, ", "))
		w("\t\tbase := optics.Morphism(list...)\n")
		second := fmt.Sprintf("iso%d", nb+1)
		if r.Extra["withNil"] == true {
			second = "nil, " + second
		}
		w("\t\tmA := optics.Morphism[%s, %s](base, iso%d)\n\t\tmB := optics.Morphism[%s, %s](base, %s)\n", S, T, nb, S, T, second)
		w("\t\toptcheck.Morph[%s, %s](h, \"Morphism(base, isoA) after Morphism(base, isoB) was built\", mA, []optcheck.Pair[%s, %s]{%s, %s})\n", S, T, S, T, strings.Join(basePairs, ", "), pairLit(pairs[nb]))
		w("\t\toptcheck.Morph[%s, %s](h, \"Morphism(base, isoB)\", mB, []optcheck.Pair[%s, %s]{%s, %s})\n", S, T, S, T, strings.Join(basePairs, ", "), pairLit(pairs[nb+1]))
		w("\t\toptcheck.Morph[%s, %s](h, \"the shared base morphism\", base, []optcheck.Pair[%s, %s]{%s})\n", S, T, S, T, strings.Join(basePairs, ", "))
		return true
	case "morphism":
		T := fmt.Sprint(r.Extra["other"])
		pairs := asMaps(r.Extra["pairs"])
		list := asInts(r.Extra["list"])
		for i, p := range pairs {
			ty := p["type"]
			w("\t\tvar sa%d optics.Lens[%s, %s]\n\t\tvar ta%d optics.Lens[%s, %s]\n", i, S, ty, i, T, ty)
			w("\t\tif !optcheck.MustNotPanic(h, \"ForProduct1 (iso %d)\", func() { sa%d = optics.ForProduct1[%s, %s](%q); ta%d = optics.ForProduct1[%s, %s](%q) }) {\n\t\t\treturn\n\t\t}\n", i, i, S, ty, p["skey"], i, T, ty, p["tkey"])
			w("\t\tiso%d := optics.Iso(sa%d, ta%d)\n", i, i, i)
		}
		var entries []string
		for _, v := range list {
			if v < 0 {
				entries = append(entries, "nil")
			} else {
				entries = append(entries, fmt.Sprintf("iso%d", v))
			}
		}
		w("\t\tpairs := []optcheck.Pair[%s, %s]{\n", S, T)
		seen := map[int]bool{}
		for _, v := range list {
			if v < 0 || seen[v] {
				continue
			}
			seen[v] = true
			p := pairs[v]
			w("\t\t\t{Src: func(p *%s) unsafe.Pointer { return unsafe.Pointer(&%s) }, Dst: func(p *%s) unsafe.Pointer { return unsafe.Pointer(&%s) }, Type: optcheck.T[%s](), Scramble: func(rt *rapid.T, p *%s) { %s = optcheck.Draw[%s](rt) }},\n",
				S, selector(asStrings(p["spath"])), T, selector(asStrings(p["tpath"])), p["type"], S, selector(asStrings(p["spath"])), p["type"])
		}
		w("\t\t}\n")
		if r.Extra["single"] == true {
			w("\t\toptcheck.Morph[%s, %s](h, \"Iso\", iso0, pairs)\n", S, T)
		} else {
			// the isos are passed as a slice the caller keeps: it must read the same afterwards, and a second morphism built
			// from it must work like the first
			w("\t\tlist := []optics.Isomorphism[%s, %s]{%s}\n\t\tkept := append([]optics.Isomorphism[%s, %s]{}, list...)\n", S, T, strings.Join(entries, ", "), S, T)
			w("\t\tm1 := optics.Morphism[%s, %s](list...)\n", S, T)
			w("\t\toptcheck.SameIsos[%s, %s](h, \"Morphism(list...)\", list, kept)\n", S, T)
			w("\t\toptcheck.Morph[%s, %s](h, \"Morphism(%s)\", m1, pairs)\n", S, T, strings.Join(entries, ", "))
			w("\t\toptcheck.Morph[%s, %s](h, \"a second Morphism built from the same slice (%s)\", optics.Morphism[%s, %s](list...), pairs)\n", S, T, strings.Join(entries, ", "), S, T)
		}
		return true
	}
	return false
}
