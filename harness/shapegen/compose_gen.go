package shapegen

func genCompose(seed, n, firstIdx int) Program { return GenProgram(seed, n, firstIdx) }
