package shapegen

import (
	"encoding/json"
	"errors"
)

// FromReplay accepts a saved Program, a vk.Failure record or a bare optcheck.Scenario and returns a
// program containing that single shape and request (or the whole saved program).
func FromReplay(b []byte) (Program, error) {
	var p Program
	if err := json.Unmarshal(b, &p); err == nil && len(p.Shapes) > 0 {
		return p, nil
	}
	var f struct {
		Scenario json.RawMessage `json:"scenario"`
	}
	raw := b
	if err := json.Unmarshal(b, &f); err == nil && len(f.Scenario) > 0 {
		raw = f.Scenario
	}
	var sc struct {
		Shape    json.RawMessage `json:"shape"`
		Request  json.RawMessage `json:"request"`
		Shapes   []Shape         `json:"shapes"`
		Requests [][]Request     `json:"requests"`
	}
	if err := json.Unmarshal(raw, &sc); err != nil {
		return p, err
	}
	if len(sc.Shapes) > 0 {
		return Program{Shapes: sc.Shapes, Requests: sc.Requests}, nil
	}
	if len(sc.Shape) == 0 {
		return p, errors.New("replay file holds no shape")
	}
	var sh Shape
	var r Request
	if err := json.Unmarshal(sc.Shape, &sh); err != nil {
		return p, err
	}
	if len(sh.Structs) == 0 {
		return Program{}, nil // one of the fixed cases every emitted package carries: re-emit just those
	}
	if err := json.Unmarshal(sc.Request, &r); err != nil {
		return p, err
	}
	return Program{Shapes: []Shape{sh}, Requests: [][]Request{{r}}}, nil
}
