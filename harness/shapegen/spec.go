// Package shapegen is engine E1: it draws struct shapes and derivation requests (rapid generators used
// through Generator.Example(seed)), predicts from the spec alone what hseq/optics must do with them,
// and emits Go programs that instantiate the real generic API on the real types and hand the results
// to harness/optcheck together with compiler-computed ground truth (plain selectors).
package shapegen

import (
	"fmt"
	"strings"
)

// Field of a generated struct.
type Field struct {
	Name string `json:"name"`          // Go field name; for embedded fields the type name
	Tag  string `json:"tag,omitempty"` // value of the hseq tag ("" = no tag)
	Kind string `json:"kind"`          // plain | embed | pembed | nested | embedns
	Type string `json:"type"`          // plain/embedns: universe type expression; embed/pembed/nested: struct name
}

// Struct is one generated struct type.
type Struct struct {
	Name   string  `json:"name"`
	Fields []Field `json:"fields"`
}

// Shape is a root struct with the struct types it uses.
type Shape struct {
	Root    string   `json:"root"`
	Structs []Struct `json:"structs"` // root first
}

func (sh *Shape) byName(n string) *Struct {
	for i := range sh.Structs {
		if sh.Structs[i].Name == n {
			return &sh.Structs[i]
		}
	}
	panic("no struct " + n)
}

// typeExpr is the Go type expression of a field as written in the declaration.
func (f Field) typeExpr() string {
	if f.Kind == "pembed" {
		return "*" + f.Type
	}
	return f.Type
}

// key is the name hseq looks the field up by.
func (f Field) key() string {
	if f.Tag != "" {
		if k := strings.Split(f.Tag, ",")[0]; k != "" {
			return k
		}
	}
	return f.Name
}

func (f Field) decl() string {
	tag := ""
	if f.Tag != "" {
		tag = fmt.Sprintf(" `hseq:%q`", f.Tag)
	}
	switch f.Kind {
	case "embed", "embedns":
		return f.Type + tag
	case "pembed":
		return "*" + f.Type + tag
	}
	return f.Name + " " + f.Type + tag
}

// Entry of the flattened listing predicted by the model (statement of C03).
type Entry struct {
	Name       string   // field name
	Key        string   // lookup key
	Type       string   // declared type expression
	Pure       string   // with one pointer stripped
	Path       []string // selector path from the root value
	ViaPointer bool     // reached by crossing at least one embedded pointer
	Depth      int      // number of embeddings crossed
	Owner      string   // struct that declares the field
}

func strip(t string) string { return strings.TrimPrefix(t, "*") }

// Listing: declaration order, each embedded struct (by value or by pointer) listed and immediately
// followed by its own fields, depth-first.
func (sh *Shape) Listing(root string) []Entry {
	var out []Entry
	var walk func(s *Struct, path []string, via bool, depth int)
	walk = func(s *Struct, path []string, via bool, depth int) {
		for _, f := range s.Fields {
			p := append(append([]string{}, path...), f.Name)
			out = append(out, Entry{Name: f.Name, Key: f.key(), Type: f.typeExpr(), Pure: strip(f.typeExpr()), Path: p, ViaPointer: via, Depth: depth, Owner: s.Name})
			switch f.Kind {
			case "embed":
				walk(sh.byName(f.Type), p, via, depth+1)
			case "pembed":
				walk(sh.byName(f.Type), p, true, depth+1)
			}
		}
	}
	walk(sh.byName(root), nil, false, 0)
	return out
}

func firstByKey(l []Entry, key string) int {
	for i, e := range l {
		if e.Key == key {
			return i
		}
	}
	return -1
}

func firstByType(l []Entry, typ string) int {
	for i, e := range l {
		if e.Type == typ {
			return i
		}
	}
	return -1
}

func selector(path []string) string { return "p." + strings.Join(path, ".") }

// ---- the field-type universe

type UType struct {
	Expr  string
	Class string   // string | bytes | int | float : BiMapS/B/I/F classes
	Near  []string // request types that look alike but are not identical
}

var Universe = []UType{
	{"bool", "", []string{"uint8", "ut.MyBool"}}, {"int8", "int", []string{"uint8", "int16"}}, {"int16", "int", []string{"ut.MyInt16", "uint16", "int32"}},
	{"int32", "int", []string{"uint32", "int"}}, {"int64", "int", []string{"int", "ut.MyInt64", "uint64"}}, {"int", "int", []string{"int64", "uint", "ut.MyInt"}},
	{"uint8", "", []string{"int8", "bool"}}, {"uint16", "", []string{"int16"}}, {"uint32", "", []string{"int32", "float32"}}, {"uint64", "", []string{"int64", "uintptr"}},
	{"uintptr", "", []string{"uint64", "*int"}}, {"float32", "float", []string{"ut.MyF32", "float64", "uint32"}}, {"float64", "float", []string{"ut.MyF64", "float32"}},
	{"complex64", "", []string{"complex128", "float64"}}, {"complex128", "", []string{"complex64"}},
	{"string", "string", []string{"ut.MyStr", "[]byte"}}, {"[]byte", "bytes", []string{"ut.MyBytes", "string"}}, {"[]int", "", []string{"[]int64", "[]string"}},
	{"[]string", "", []string{"ut.Labels", "[2]string"}}, {"*int", "", []string{"int", "*int64"}}, {"*string", "", []string{"string", "*ut.MyStr"}},
	{"*ut.Pt", "", []string{"*altut.Pt", "ut.Pt", "*int"}}, {"map[string]int", "", []string{"ut.MyMap"}}, {"chan int", "", []string{"<-chan int"}},
	{"func() int", "", []string{"func() string"}}, {"any", "", []string{"fmt.Stringer", "error"}}, {"error", "", []string{"any", "*ut.Err"}},
	{"fmt.Stringer", "", []string{"any", "*ut.Buf", "ut.Tag"}}, {"[0]int", "", []string{"[0]string", "struct{}"}}, {"[3]byte", "", []string{"[4]byte", "[]byte"}},
	{"[2]string", "", []string{"[]string"}}, {"[5]int16", "", []string{"[5]uint16"}}, {"[33]uint64", "", []string{"[32]uint64"}}, {"struct{}", "", []string{"[0]int"}},
	{"ut.Pt", "", []string{"*ut.Pt"}}, {"ut.MyStr", "string", []string{"string"}}, {"ut.MyInt16", "int", []string{"int16"}}, {"ut.MyInt", "int", []string{"int"}},
	{"ut.MyInt64", "int", []string{"int64"}}, {"ut.MyBytes", "bytes", []string{"[]byte"}}, {"ut.MyF32", "float", []string{"float32"}}, {"ut.MyF64", "float", []string{"float64"}},
	{"ut.Labels", "", []string{"[]string"}}, {"ut.MyMap", "", []string{"map[string]int"}}, {"ut.MyBool", "", []string{"bool"}}, {"*ut.Buf", "", []string{"fmt.Stringer", "ut.Buf"}},
	{"ut.Tag", "", []string{"fmt.Stringer", "uint8"}},
	// larger than 64 KiB: every field declared after it lies beyond the reach of a 16-bit offset
	{"[9000]uint64", "", []string{"[9000]int64", "[8999]uint64"}},
	// unnamed composite types built from structs
	{"struct{ A int8; B string }", "", []string{"struct{ A int8; C string }", "ut.Pt"}}, {"[]struct{ X int }", "", []string{"[]struct{ Y int }", "[]ut.Pt"}},
	{"*struct{ X int64 }", "", []string{"struct{ X int64 }", "*ut.Pt"}}, {"[2]ut.Pt", "", []string{"[2]altut.Pt", "[3]ut.Pt"}}, {"map[ut.Pt]string", "", []string{"map[altut.Pt]string"}},
	{"func(ut.Pt) error", "", []string{"func(altut.Pt) error", "func(ut.Pt)"}},
	// same printed name as the ut namesakes, different package: "*ut.Pt", "[]ut.MyStr", "ut.Pt"
	{"*altut.Pt", "", []string{"*ut.Pt"}}, {"[]altut.MyStr", "", []string{"[]ut.MyStr", "[]string"}}, {"altut.Pt", "", []string{"ut.Pt"}},
}

func utype(expr string) *UType {
	for i := range Universe {
		if Universe[i].Expr == expr {
			return &Universe[i]
		}
	}
	return nil
}

// embeddable non-struct named types: (type expression, resulting field name)
var embedNS = [][2]string{{"ut.MyStr", "MyStr"}, {"ut.MyInt16", "MyInt16"}, {"ut.Labels", "Labels"}, {"ut.Tag", "Tag"}, {"ut.MyF64", "MyF64"}}
