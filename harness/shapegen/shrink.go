package shapegen

import (
	"fmt"
	"regexp"
	"strings"
)

// ShrinkCandidates proposes smaller variants of one failing (shape, request) pair: one field removed, one tag
// cleared, one embedding level flattened away.  Only variants in which the request keeps its meaning are returned
// (the same names resolve, with the same type relation and the same side of an embedded pointer); each variant gets
// its own type names so that all of them fit into one emitted package.  Requests that carry composite data
// (Join chains, morphisms) are not shrunk.
func ShrinkCandidates(sh Shape, r Request) []Program {
	if len(r.Extra) > 0 && r.API != "listing" {
		return nil
	}
	var out []Program
	add := func(v Shape) {
		v = gc(v)
		r2, ok := refocus(&sh, &v, r)
		if !ok {
			return
		}
		k := len(out)
		v2, r3 := rename(v, r2, fmt.Sprintf("c%d", k))
		out = append(out, Program{Shapes: []Shape{v2}, Requests: [][]Request{{r3}}})
	}
	// 1. drop a whole embedded / nested struct field, 2. drop a plain field, 3. clear a tag
	for pass := 0; pass < 3; pass++ {
		for si := range sh.Structs {
			for fi := range sh.Structs[si].Fields {
				f := sh.Structs[si].Fields[fi]
				structField := f.Kind == "embed" || f.Kind == "pembed" || f.Kind == "nested"
				switch {
				case pass == 0 && structField, pass == 1 && !structField:
					if len(sh.Structs[si].Fields) == 1 && si == 0 {
						continue // keep at least one field in the root
					}
					v := clone(sh)
					v.Structs[si].Fields = append(v.Structs[si].Fields[:fi:fi], v.Structs[si].Fields[fi+1:]...)
					add(v)
				case pass == 2 && f.Tag != "":
					v := clone(sh)
					v.Structs[si].Fields[fi].Tag = ""
					add(v)
				}
			}
		}
	}
	return out
}

func clone(sh Shape) Shape {
	c := Shape{Root: sh.Root}
	for _, s := range sh.Structs {
		c.Structs = append(c.Structs, Struct{Name: s.Name, Fields: append([]Field{}, s.Fields...)})
	}
	return c
}

// gc removes fields whose struct type has no fields left, then every struct type that is no longer reachable from the root.
func gc(sh Shape) Shape {
	isRef := func(f Field) bool { return f.Kind == "embed" || f.Kind == "pembed" || f.Kind == "nested" }
	for {
		empty := map[string]bool{}
		for _, s := range sh.Structs {
			if len(s.Fields) == 0 && s.Name != sh.Root {
				empty[s.Name] = true
			}
		}
		removed := false
		for si := range sh.Structs {
			var keep []Field
			for _, f := range sh.Structs[si].Fields {
				if isRef(f) && empty[f.Type] {
					removed = true
					continue
				}
				keep = append(keep, f)
			}
			sh.Structs[si].Fields = keep
		}
		var keepS []Struct
		for _, s := range sh.Structs {
			if !empty[s.Name] {
				keepS = append(keepS, s)
			}
		}
		sh.Structs = keepS
		if !removed {
			break
		}
	}
	used := map[string]bool{sh.Root: true}
	var walk func(n string)
	walk = func(n string) {
		for _, s := range sh.Structs {
			if s.Name != n {
				continue
			}
			for _, f := range s.Fields {
				if isRef(f) && !used[f.Type] {
					used[f.Type] = true
					walk(f.Type)
				}
			}
		}
	}
	walk(sh.Root)
	var keepS []Struct
	for _, s := range sh.Structs {
		if used[s.Name] {
			keepS = append(keepS, s)
		}
	}
	sh.Structs = keepS
	return sh
}

// refocus recomputes the listing positions a request refers to on the smaller shape and checks that the request
// still means the same thing there.
func refocus(old, v *Shape, r Request) (Request, bool) {
	if len(v.Structs) == 0 || len(v.byNameOK(v.Root)) == 0 {
		return r, false
	}
	if r.API == "listing" {
		return r, true
	}
	lo, ln := old.Listing(old.Root), v.Listing(v.Root)
	names := map[string]bool{}
	for _, s := range v.Structs {
		names[s.Name] = true
	}
	for _, ty := range r.Types {
		if t := strip(ty); utype(t) == nil && utype(ty) == nil && !names[t] && isGenerated(t) {
			return r, false // the request mentions a struct type that no longer exists
		}
	}
	r2 := r
	r2.Foci = nil
	n := len(r.Types)
	for i := 0; i < n; i++ {
		var io, in int
		if r.ByName {
			if i >= len(r.Names) {
				return r, false
			}
			io, in = firstByKey(lo, r.Names[i]), firstByKey(ln, r.Names[i])
		} else {
			io, in = firstByType(lo, r.Types[i]), firstByType(ln, r.Types[i])
		}
		if (io < 0) != (in < 0) {
			return r, false
		}
		if io >= 0 {
			if (lo[io].Type == r.Types[i]) != (ln[in].Type == r.Types[i]) || lo[io].ViaPointer != ln[in].ViaPointer {
				return r, false
			}
		}
		if len(r.Foci) > 0 {
			if in < 0 {
				return r, false
			}
			r2.Foci = append(r2.Foci, in)
		}
	}
	return r2, true
}

func isGenerated(t string) bool {
	return regexp.MustCompile(`^[SEe]\d+(_\d+)?(_c\d+)*$`).MatchString(t)
}

func (sh *Shape) byNameOK(n string) []Field {
	for _, s := range sh.Structs {
		if s.Name == n {
			return s.Fields
		}
	}
	return nil
}

// rename gives every generated struct type of the variant a suffix, consistently in the shape and the request.
func rename(sh Shape, r Request, suffix string) (Shape, Request) {
	m := map[string]string{}
	old := regexp.MustCompile(`(_c\d+)+$`)
	for _, s := range sh.Structs {
		m[s.Name] = old.ReplaceAllString(s.Name, "") + "_" + suffix
	}
	re := regexp.MustCompile(`[A-Za-z_][A-Za-z0-9_]*`)
	ren := func(t string) string {
		return re.ReplaceAllStringFunc(t, func(w string) string {
			if n, ok := m[w]; ok {
				return n
			}
			return w
		})
	}
	out := Shape{Root: m[sh.Root]}
	for _, s := range sh.Structs {
		ns := Struct{Name: m[s.Name]}
		for _, f := range s.Fields {
			nf := f
			if f.Kind == "embed" || f.Kind == "pembed" || f.Kind == "nested" {
				nf.Type = m[f.Type]
				if f.Kind != "nested" {
					nf.Name = m[f.Type] // an embedded field is named after its type
				}
			}
			ns.Fields = append(ns.Fields, nf)
		}
		out.Structs = append(out.Structs, ns)
	}
	r2 := r
	r2.Types = nil
	for _, t := range r.Types {
		r2.Types = append(r2.Types, ren(t))
	}
	r2.Names = nil
	for _, n := range r.Names {
		if nn, ok := m[n]; ok && !strings.Contains(n, ",") {
			// a name that is the (untagged) key of an embedded struct field follows the type name
			r2.Names = append(r2.Names, nn)
		} else {
			r2.Names = append(r2.Names, n)
		}
	}
	return out, r2
}
