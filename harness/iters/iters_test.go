package iters

import (
	"errors"
	"fmt"
	"reflect"
	"strconv"
	"testing"

	"github.com/fogfish/golem/trait/pair"
	"github.com/fogfish/golem/trait/seq"
	"pgregory.net/rapid"
	"verif/harness/vk"
)

func TestMain(m *testing.M) { vk.Main(m) }

type Scenario struct {
	Root string `json:"root"` // "S" or "P"
	Tree *Node  `json:"tree"`
	// Other: a second Seq expression drained step-alternately with the first (state shared between iterators would show)
	Other *Node `json:"other,omitempty"`
	Fail  int   `json:"fail"` // ForEach: callback index that returns an error (taken modulo len+1; == len: none)
}

// ---- generators

func genFunc(t *rapid.T, n *Node) {
	n.F = rapid.IntRange(0, 5).Draw(t, "f")
	n.A = rapid.IntRange(0, 4).Draw(t, "a")
	n.B = rapid.IntRange(-3, 12).Draw(t, "b")
}

func genBody(t *rapid.T, n *Node) {
	if rapid.IntRange(0, 2).Draw(t, "nilclass") > 0 {
		n.NilMod = rapid.IntRange(2, 4).Draw(t, "nm")
		n.NilRes = rapid.IntRange(0, 3).Draw(t, "nr")
	}
}

func genS(t *rapid.T, depth int, pairs bool) *Node {
	ops := []string{"slice", "slice", "from", "nil"}
	if depth > 1 {
		ops = append(ops, "takeWhile", "dropWhile", "filter", "map", "plus", "plus", "join", "join",
			"takeWhile", "dropWhile", "filter", "map", "plus", "join")
		if pairs {
			ops = append(ops, "toSeq", "toSeq", "toSeq")
		}
	}
	n := &Node{Op: rapid.SampledFrom(ops).Draw(t, "op")}
	switch n.Op {
	case "slice":
		n.Xs = rapid.SliceOfN(rapid.IntRange(0, 20), 0, 6).Draw(t, "xs")
		if rapid.IntRange(0, 2).Draw(t, "window") == 0 {
			n.Spare = rapid.IntRange(1, 8).Draw(t, "spare")
		}
		if longLeft > 0 && rapid.IntRange(0, 399).Draw(t, "long") == 0 {
			// at most one long leaf per tree (it may sit inside a join body and be walked once per outer element)
			longLeft--
			n.Xs = nil
			n.Long = rapid.SampledFrom([]int{64, 64, 256, 256, 1024, 4096}).Draw(t, "pow") + rapid.IntRange(-1, 1).Draw(t, "off")
		}
	case "from":
		n.Xs = []int{rapid.IntRange(0, 20).Draw(t, "x")}
	case "nil":
	case "takeWhile", "dropWhile", "filter", "map":
		genFunc(t, n)
		n.L = genS(t, depth-1, pairs)
	case "plus":
		n.L, n.R = genS(t, depth-1, pairs), genS(t, depth-1, pairs)
	case "join":
		genBody(t, n)
		n.L, n.R = genS(t, depth-1, pairs), genS(t, depth-1, pairs)
	case "toSeq":
		genBody(t, n)
		n.L, n.R = genP(t, depth-1), genS(t, depth-1, pairs)
	}
	return n
}

func genP(t *rapid.T, depth int) *Node {
	ops := []string{"pfrom", "pfrom", "pnil"}
	if depth > 1 {
		ops = append(ops, "ptakeWhile", "pdropWhile", "pfilter", "pmap", "pplus", "pplus", "pplus", "pjoin", "fromSeq", "fromSeq", "fromSeq")
	}
	n := &Node{Op: rapid.SampledFrom(ops).Draw(t, "op")}
	switch n.Op {
	case "pfrom":
		n.Xs = []int{rapid.IntRange(1000, 1020).Draw(t, "k"), rapid.IntRange(0, 20).Draw(t, "v")}
	case "pnil":
	case "ptakeWhile", "pdropWhile", "pfilter", "pmap":
		genFunc(t, n)
		n.L = genP(t, depth-1)
	case "pplus":
		n.L, n.R = genP(t, depth-1), genP(t, depth-1)
	case "pjoin":
		genBody(t, n)
		n.L, n.R = genP(t, depth-1), genP(t, depth-1)
	case "fromSeq":
		genBody(t, n)
		n.L, n.R = genS(t, depth-1, true), genP(t, depth-1)
	}
	return n
}

// ---- executor

var errStop = errors.New("stop here")

const slack = 8

func drainS(s seq.Seq[int], bound int) ([]int, string) {
	out := []int{}
	for has := s != nil; has; has = s.Next() {
		if len(out) > bound+slack {
			return out, "iterator yields more elements than the list semantics allows (does not stop)"
		}
		out = append(out, s.Value())
	}
	return out, ""
}

func drainP(s pair.Seq[int, int], bound int) ([]kv, string) {
	out := []kv{}
	for has := s != nil; has; has = s.Next() {
		if len(out) > bound+slack {
			return out, "iterator yields more elements than the list semantics allows (does not stop)"
		}
		out = append(out, kv{s.Key(), s.Value()})
	}
	return out, ""
}

// Run builds the expression with the real combinators, drains it by the documented loop and by
// ForEach, and compares with the list interpreter.
func Run(sc Scenario) (msg string) {
	defer func() {
		if r := recover(); r != nil {
			msg = fmt.Sprintf("panic: %v", r)
		}
	}()
	b := &builder{}
	var n int
	if sc.Root == "S" {
		want := evalS(sc.Tree, 0)
		n = len(want)
		got, e := drainS(b.S(sc.Tree, 0), n)
		if e != "" {
			return e + fmt.Sprintf(": got %v..., want %v", got, want)
		}
		if !reflect.DeepEqual(got, want) {
			return fmt.Sprintf("drained %v, list semantics gives %v", got, want)
		}
		// ForEach with a failing callback
		k := mod(sc.Fail, n+1)
		var visited []int
		evalsAtError := -1
		err := seq.ForEach(b.S(sc.Tree, 0), func(x int) error {
			if len(visited) > n+slack {
				panic("ForEach does not stop")
			}
			visited = append(visited, x)
			if len(visited)-1 == k {
				evalsAtError = b.evals
				return errStop
			}
			return nil
		})
		if evalsAtError >= 0 && b.evals != evalsAtError {
			return fmt.Sprintf("ForEach failing at callback %d did not stop at once: %d more evaluations of predicates / mappings / join functions happened after the callback returned its error", k, b.evals-evalsAtError)
		}
		wantVisited := want[:min(k+1, n)]
		if !reflect.DeepEqual(append([]int{}, visited...), append([]int{}, wantVisited...)) {
			return fmt.Sprintf("ForEach failing at callback %d visited %v, want %v", k, visited, wantVisited)
		}
		if (k < n) != (err == errStop) || (k >= n && err != nil) {
			return fmt.Sprintf("ForEach failing at callback %d of %d returned %v", k, n, err)
		}
	} else {
		want := evalP(sc.Tree, 0)
		n = len(want)
		got, e := drainP(b.P(sc.Tree, 0), n)
		if e != "" {
			return e + fmt.Sprintf(": got %v..., want %v", got, want)
		}
		if !reflect.DeepEqual(got, want) {
			return fmt.Sprintf("drained (key,value) pairs %v, list semantics gives %v", got, want)
		}
		k := mod(sc.Fail, n+1)
		var visited []kv
		evalsAtError := -1
		err := pair.ForEach(b.P(sc.Tree, 0), func(key, val int) error {
			if len(visited) > n+slack {
				panic("ForEach does not stop")
			}
			visited = append(visited, kv{key, val})
			if len(visited)-1 == k {
				evalsAtError = b.evals
				return errStop
			}
			return nil
		})
		if evalsAtError >= 0 && b.evals != evalsAtError {
			return fmt.Sprintf("pair.ForEach failing at callback %d did not stop at once: %d more evaluations of predicates / mappings / join functions happened after the callback returned its error", k, b.evals-evalsAtError)
		}
		wantVisited := want[:min(k+1, n)]
		if !reflect.DeepEqual(append([]kv{}, visited...), append([]kv{}, wantVisited...)) {
			return fmt.Sprintf("pair.ForEach failing at callback %d visited %v, want %v", k, visited, wantVisited)
		}
		if (k < n) != (err == errStop) || (k >= n && err != nil) {
			return fmt.Sprintf("pair.ForEach failing at callback %d of %d returned %v", k, n, err)
		}
	}
	if sc.Other != nil {
		if m := runAlternately(sc); m != "" {
			return m
		}
	}
	for _, src := range b.sources {
		if !reflect.DeepEqual(src[0], src[1]) {
			return fmt.Sprintf("a source slice (or the buffer capacity behind it) was modified: now %v, was %v", src[0], src[1])
		}
	}
	return ""
}

// runAlternately builds both expressions first, then advances them in turns.
func runAlternately(sc Scenario) string {
	b := &builder{}
	wantB := evalS(sc.Other, 0)
	itB := b.S(sc.Other, 0)
	var gotA []string
	var wantA []string
	var next func() (string, bool)
	if sc.Root == "S" {
		for _, x := range evalS(sc.Tree, 0) {
			wantA = append(wantA, fmt.Sprint(x))
		}
		it := b.S(sc.Tree, 0)
		has := it != nil
		next = func() (string, bool) {
			if !has {
				return "", false
			}
			v := fmt.Sprint(it.Value())
			has = it.Next()
			return v, true
		}
	} else {
		for _, x := range evalP(sc.Tree, 0) {
			wantA = append(wantA, fmt.Sprint(x))
		}
		it := b.P(sc.Tree, 0)
		has := it != nil
		next = func() (string, bool) {
			if !has {
				return "", false
			}
			v := fmt.Sprint(kv{it.Key(), it.Value()})
			has = it.Next()
			return v, true
		}
	}
	gotB := []int{}
	hasB := itB != nil
	for steps := 0; steps < len(wantA)+len(wantB)+2*slack; steps++ {
		va, okA := next()
		if okA {
			gotA = append(gotA, va)
		}
		if hasB {
			gotB = append(gotB, itB.Value())
			hasB = itB.Next()
		}
		if !okA && !hasB {
			break
		}
	}
	if !reflect.DeepEqual(append([]string{}, gotA...), append([]string{}, wantA...)) || !reflect.DeepEqual(gotB, wantB) {
		return fmt.Sprintf("two expressions drained alternately: first gave %v (want %v), second gave %v (want %v)", gotA, wantA, gotB, wantB)
	}
	return ""
}

func stats(sc Scenario) (bool, []string) {
	d := sc.Tree.depth()
	ops := map[string]bool{}
	sc.Tree.ops(ops)
	comb := 0
	mixed := false
	for op := range ops {
		if !isLeaf(op) {
			comb++
		}
		if sortOf(op) != sc.Root {
			mixed = true
		}
	}
	var n int
	if sc.Root == "S" {
		n = len(evalS(sc.Tree, 0))
	} else {
		n = len(evalP(sc.Tree, 0))
	}
	cl := []string{"depth=" + strconv.Itoa(min(d, 6)), "root=" + sc.Root}
	if n == 0 {
		cl = append(cl, "result-empty")
	}
	if mixed {
		cl = append(cl, "mixes-pair-and-seq")
	}
	if ops["join"] || ops["pjoin"] || ops["toSeq"] || ops["fromSeq"] {
		cl = append(cl, "has-join")
	}
	return d >= 3 && n >= 1 && comb >= 2, cl
}

func check(prop string, t interface{ Fatalf(string, ...any) }, sc Scenario) {
	msg := Run(sc)
	nt, cl := stats(sc)
	vk.Record(sc, nt, cl...)
	if msg != "" {
		vk.Fail(prop, "Test"+prop, "", sc, msg)
		t.Fatalf("%s", msg)
	}
}

// longLeft: how many long slice leaves the tree being drawn may still get (the generators run on one goroutine)
var longLeft int

func propC14(t *rapid.T) {
	longLeft = 1
	d := rapid.IntRange(1, 6).Draw(t, "depth")
	sc := Scenario{Root: "S", Tree: genS(t, d, false), Fail: rapid.IntRange(0, 40).Draw(t, "fail")}
	if rapid.IntRange(0, 3).Draw(t, "second") == 0 {
		sc.Other = genS(t, rapid.IntRange(1, 4).Draw(t, "depth2"), false)
	}
	check("C14", t, sc)
}

func TestC14(t *testing.T) { rapid.Check(t, propC14) }

// FuzzC14 / FuzzC15: the same properties driven by Go's coverage-guided fuzzer (thorough tier only).
func FuzzC14(f *testing.F) {
	f.Add([]byte{})
	f.Add([]byte("\x01\x02\x03\x04\x05\x06\x07\x08"))
	f.Fuzz(rapid.MakeFuzz(propC14))
}
func FuzzC15(f *testing.F) {
	f.Add([]byte{})
	f.Add([]byte("\x01\x02\x03\x04\x05\x06\x07\x08"))
	f.Fuzz(rapid.MakeFuzz(propC15))
}

func TestC15(t *testing.T) { rapid.Check(t, propC15) }

func propC15(t *rapid.T) {
	longLeft = 1
	{
		d := rapid.IntRange(2, 6).Draw(t, "depth")
		sc := Scenario{Fail: rapid.IntRange(0, 40).Draw(t, "fail")}
		if rapid.IntRange(0, 3).Draw(t, "root") == 0 {
			sc.Root = "S"
			n := &Node{Op: "toSeq"} // an S-rooted tree of C15 always contains pairs
			genBody(t, n)
			n.L, n.R = genP(t, d-1), genS(t, d-1, true)
			sc.Tree = n
		} else {
			sc.Root, sc.Tree = "P", genP(t, d)
		}
		if rapid.IntRange(0, 3).Draw(t, "second") == 0 {
			sc.Other = genS(t, rapid.IntRange(1, 4).Draw(t, "depth2"), true)
		}
		check("C15", t, sc)
	}
}

// ---- exhaustive enumeration of small trees

func enumS(depth int, leavesS, leavesP []*Node, pairs bool) []*Node {
	if depth <= 1 {
		return leavesS
	}
	sub := enumS(depth-1, leavesS, leavesP, pairs)
	out := append([]*Node{}, sub...)
	funcs := []Node{{F: 0, A: 0, B: 1}, {F: 1, B: 3}}
	for _, op := range []string{"takeWhile", "dropWhile", "filter", "map"} {
		for _, f := range funcs {
			for _, l := range sub {
				out = append(out, &Node{Op: op, F: f.F, A: f.A, B: f.B, L: l})
			}
		}
	}
	for _, l := range sub {
		for _, r := range sub {
			out = append(out, &Node{Op: "plus", L: l, R: r})
			out = append(out, &Node{Op: "join", L: l, R: r}, &Node{Op: "join", NilMod: 2, NilRes: 1, L: l, R: r})
		}
	}
	if pairs {
		for _, l := range enumP(depth-1, leavesS, leavesP) {
			for _, r := range sub {
				out = append(out, &Node{Op: "toSeq", NilMod: 2, NilRes: 1, L: l, R: r})
			}
		}
	}
	return out
}

func enumP(depth int, leavesS, leavesP []*Node) []*Node {
	if depth <= 1 {
		return leavesP
	}
	sub := enumP(depth-1, leavesS, leavesP)
	out := append([]*Node{}, sub...)
	funcs := []Node{{F: 0, A: 0, B: 1}, {F: 5, B: 3}}
	for _, op := range []string{"ptakeWhile", "pdropWhile", "pfilter", "pmap"} {
		for _, f := range funcs {
			for _, l := range sub {
				out = append(out, &Node{Op: op, F: f.F, A: f.A, B: f.B, L: l})
			}
		}
	}
	for _, l := range sub {
		for _, r := range sub {
			out = append(out, &Node{Op: "pplus", L: l, R: r}, &Node{Op: "pjoin", NilMod: 2, NilRes: 1, L: l, R: r})
		}
	}
	for _, l := range enumS(depth-1, leavesS, leavesP, false) {
		for _, r := range sub {
			out = append(out, &Node{Op: "fromSeq", L: l, R: r}, &Node{Op: "fromSeq", NilMod: 2, NilRes: 0, L: l, R: r})
		}
	}
	return out
}

var leavesS = []*Node{{Op: "nil"}, {Op: "slice", Xs: []int{}}, {Op: "slice", Xs: []int{2}, Spare: 4}, {Op: "slice", Xs: []int{1, 2, 4}}, {Op: "from", Xs: []int{3}}}
var leavesP = []*Node{{Op: "pnil"}, {Op: "pfrom", Xs: []int{1001, 2}}, {Op: "pfrom", Xs: []int{1004, 1}}}

func TestC14Enum(t *testing.T) {
	trees := enumS(3, leavesS, leavesP, false)
	shard, shards := vk.IntEnv("VERIF_SHARD", 0), vk.IntEnv("VERIF_SHARDS", 1)
	for i, tr := range trees {
		if i%shards != shard {
			continue
		}
		n := len(evalS(tr, 0))
		for k := 0; k <= n; k++ { // every ForEach failure position
			check("C14", t, Scenario{Root: "S", Tree: tr, Fail: k})
		}
	}
	vk.Exhaustive(fmt.Sprintf("all %d Seq expression trees of depth <= 3 over 5 leaves, 2 functions per unary combinator, Plus, Join with/without a nil residue class, x every ForEach failure position", len(trees)))
}

func TestC15Enum(t *testing.T) {
	trees := enumP(3, leavesS, leavesP)
	shard, shards := vk.IntEnv("VERIF_SHARD", 0), vk.IntEnv("VERIF_SHARDS", 1)
	for i, tr := range trees {
		if i%shards != shard {
			continue
		}
		n := len(evalP(tr, 0))
		for k := 0; k <= n; k++ {
			check("C15", t, Scenario{Root: "P", Tree: tr, Fail: k})
		}
	}
	strees := enumS(3, leavesS, leavesP, true)
	cnt := 0
	for i, tr := range strees {
		ops := map[string]bool{}
		tr.ops(ops)
		if !ops["toSeq"] {
			continue
		}
		cnt++
		if i%shards != shard {
			continue
		}
		check("C15", t, Scenario{Root: "S", Tree: tr, Fail: len(evalS(tr, 0))})
	}
	vk.Exhaustive(fmt.Sprintf("all %d pair expression trees of depth <= 3 (x every ForEach failure position) and all %d Seq trees of depth <= 3 containing ToSeq, over 3 pair leaves / 5 seq leaves, 2 functions per unary combinator", len(trees), cnt))
}

func TestReplay(t *testing.T) {
	var sc Scenario
	ok, err := vk.LoadReplay(&sc)
	if !ok {
		t.Skip("no VERIF_REPLAY")
	}
	if err != nil {
		t.Fatalf("bad replay file: %v", err)
	}
	if msg := Run(sc); msg != "" {
		t.Fatalf("%s", msg)
	}
}
