// Package iters: generated expression trees over trait/seq and trait/pair, built with the
// real combinators and evaluated by an obviously-correct list interpreter (engine E5).
package iters

import (
	"fmt"

	"github.com/fogfish/golem/trait/pair"
	"github.com/fogfish/golem/trait/seq"
)

// Node is one combinator application.  Sort "S" nodes denote seq.Seq[int], sort "P" nodes
// pair.Seq[int,int].  Bodies of Join/ToSeq/FromSeq are sub-trees evaluated with an
// environment "shift" derived from the outer element, which is added to every leaf value;
// a body returns nil when its parameter falls into the residue class (NilMod, NilRes).
type Node struct {
	Op     string `json:"op"`
	Xs     []int  `json:"xs,omitempty"`    // slice leaf / from value / pfrom key,value
	Spare  int    `json:"spare,omitempty"` // slice leaf: the source is a window buf[:len] of a buffer with this much capacity behind it
	Long   int    `json:"long,omitempty"`  // slice leaf: Long generated elements (i*7+3)%23 instead of Xs (lengths around powers of two)
	F      int    `json:"f,omitempty"`     // function family member
	A      int    `json:"a,omitempty"`     // function parameters
	B      int    `json:"b,omitempty"`
	NilMod int    `json:"nm,omitempty"` // join bodies: return nil when param mod NilMod == NilRes (NilMod 0: never)
	NilRes int    `json:"nr,omitempty"`
	L      *Node  `json:"l,omitempty"`
	R      *Node  `json:"r,omitempty"`
}

type kv struct{ K, V int }

// xs is the content of a slice leaf.
func (n *Node) xs() []int {
	if n.Long <= 0 {
		return n.Xs
	}
	out := make([]int, n.Long)
	for i := range out {
		out[i] = (i*7 + 3) % 23
	}
	return out
}

func mod(x, m int) int {
	if m <= 0 {
		return 0
	}
	return ((x % m) + m) % m
}

// ---- function families (pure, total)

func predS(n *Node) func(int) bool {
	a, b := n.A, n.B
	switch n.F % 5 {
	case 0:
		return func(x int) bool { return mod(x, a+2) != mod(b, a+2) }
	case 1:
		return func(x int) bool { return x < b }
	case 2:
		return func(int) bool { return true }
	case 3:
		return func(int) bool { return false }
	default:
		return func(x int) bool { return mod(x, 2) == 0 }
	}
}

func mapS(n *Node) func(int) int {
	a, b := n.A, n.B
	switch n.F % 3 {
	case 0:
		return func(x int) int { return (a+1)*x + b }
	case 1:
		return func(x int) int { return b - x }
	default:
		return func(x int) int { return x }
	}
}

// predicates on (key, value): asymmetric in their arguments
func predP(n *Node) func(int, int) bool {
	a, b := n.A, n.B
	switch n.F % 6 {
	case 0:
		return func(k, v int) bool { return mod(k-2*v, a+2) != mod(b, a+2) }
	case 1:
		return func(k, v int) bool { return mod(k, a+2) != mod(b, a+2) }
	case 2:
		return func(k, v int) bool { return mod(v, a+2) != mod(b, a+2) }
	case 3:
		return func(int, int) bool { return true }
	case 4:
		return func(int, int) bool { return false }
	default:
		return func(k, v int) bool { return k-1000 > v+b-5 }
	}
}

func mapP(n *Node) func(int, int) int {
	a, b := n.A, n.B
	switch n.F % 3 {
	case 0:
		return func(k, v int) int { return (a+1)*v + b + mod(k, 5) }
	case 1:
		return func(k, v int) int { return k - 3*v }
	default:
		return func(k, v int) int { return v }
	}
}

// parameters of join bodies
func shiftS(x int) int           { return mod(x, 7) }
func shiftP(k, v int) int        { return mod(k-2*v, 7) }
func (n *Node) isNil(p int) bool { return n.NilMod > 0 && mod(p, n.NilMod) == mod(n.NilRes, n.NilMod) }

// ---- builder: the real combinators

type builder struct {
	sources [][2][]int // (slice handed to FromSlice, private copy)
	evals   int        // number of user-function evaluations (predicates, mappings, join bodies) so far
}

func (b *builder) predS(n *Node) func(int) bool {
	f := predS(n)
	return func(x int) bool { b.evals++; return f(x) }
}

func (b *builder) mapS(n *Node) func(int) int {
	f := mapS(n)
	return func(x int) int { b.evals++; return f(x) }
}

func (b *builder) predP(n *Node) func(int, int) bool {
	f := predP(n)
	return func(k, v int) bool { b.evals++; return f(k, v) }
}

func (b *builder) mapP(n *Node) func(int, int) int {
	f := mapP(n)
	return func(k, v int) int { b.evals++; return f(k, v) }
}

func (b *builder) S(n *Node, shift int) seq.Seq[int] {
	switch n.Op {
	case "nil":
		return nil
	case "slice":
		// the source is a window of a larger buffer; the capacity behind it holds sentinels that must survive
		xs := n.xs()
		buf := make([]int, len(xs)+n.Spare)
		for i := range buf {
			buf[i] = -777 - i
		}
		for i, x := range xs {
			buf[i] = x + shift
		}
		b.sources = append(b.sources, [2][]int{buf, append([]int{}, buf...)})
		return seq.FromSlice(buf[:len(xs)])
	case "from":
		return seq.From(n.Xs[0] + shift)
	case "takeWhile":
		return seq.TakeWhile(b.S(n.L, shift), b.predS(n))
	case "dropWhile":
		return seq.DropWhile(b.S(n.L, shift), b.predS(n))
	case "filter":
		return seq.Filter(b.S(n.L, shift), b.predS(n))
	case "map":
		return seq.Map(b.S(n.L, shift), b.mapS(n))
	case "plus":
		return seq.Plus(b.S(n.L, shift), b.S(n.R, shift))
	case "join":
		return seq.Join(b.S(n.L, shift), func(x int) seq.Seq[int] {
			b.evals++
			if n.isNil(x) {
				return nil
			}
			return b.S(n.R, shiftS(x))
		})
	case "toSeq":
		return pair.ToSeq(b.P(n.L, shift), func(k, v int) seq.Seq[int] {
			b.evals++
			if n.isNil(k - v) {
				return nil
			}
			return b.S(n.R, shiftP(k, v))
		})
	}
	panic("bad S op " + n.Op)
}

func (b *builder) P(n *Node, shift int) pair.Seq[int, int] {
	switch n.Op {
	case "pnil":
		return nil
	case "pfrom":
		return pair.From(n.Xs[0]+shift, n.Xs[1]+shift)
	case "ptakeWhile":
		return pair.TakeWhile(b.P(n.L, shift), b.predP(n))
	case "pdropWhile":
		return pair.DropWhile(b.P(n.L, shift), b.predP(n))
	case "pfilter":
		return pair.Filter(b.P(n.L, shift), b.predP(n))
	case "pmap":
		return pair.Map(b.P(n.L, shift), b.mapP(n))
	case "pplus":
		return pair.Plus(b.P(n.L, shift), b.P(n.R, shift))
	case "pjoin":
		return pair.Join(b.P(n.L, shift), func(k, v int) pair.Seq[int, int] {
			b.evals++
			if n.isNil(k - v) {
				return nil
			}
			return b.P(n.R, shiftP(k, v))
		})
	case "fromSeq":
		return pair.FromSeq(b.S(n.L, shift), func(x int) pair.Seq[int, int] {
			b.evals++
			if n.isNil(x) {
				return nil
			}
			return b.P(n.R, shiftS(x))
		})
	}
	panic("bad P op " + n.Op)
}

// ---- list interpreter: the reference semantics

func evalS(n *Node, shift int) []int {
	out := []int{}
	switch n.Op {
	case "nil":
	case "slice":
		for _, x := range n.xs() {
			out = append(out, x+shift)
		}
	case "from":
		out = append(out, n.Xs[0]+shift)
	case "takeWhile":
		f := predS(n)
		for _, x := range evalS(n.L, shift) {
			if !f(x) {
				break
			}
			out = append(out, x)
		}
	case "dropWhile":
		f := predS(n)
		dropping := true
		for _, x := range evalS(n.L, shift) {
			if dropping && f(x) {
				continue
			}
			dropping = false
			out = append(out, x)
		}
	case "filter":
		f := predS(n)
		for _, x := range evalS(n.L, shift) {
			if f(x) {
				out = append(out, x)
			}
		}
	case "map":
		f := mapS(n)
		for _, x := range evalS(n.L, shift) {
			out = append(out, f(x))
		}
	case "plus":
		out = append(out, evalS(n.L, shift)...)
		out = append(out, evalS(n.R, shift)...)
	case "join":
		for _, x := range evalS(n.L, shift) {
			if !n.isNil(x) {
				out = append(out, evalS(n.R, shiftS(x))...)
			}
		}
	case "toSeq":
		for _, p := range evalP(n.L, shift) {
			if !n.isNil(p.K - p.V) {
				out = append(out, evalS(n.R, shiftP(p.K, p.V))...)
			}
		}
	default:
		panic("bad S op " + n.Op)
	}
	return out
}

func evalP(n *Node, shift int) []kv {
	out := []kv{}
	switch n.Op {
	case "pnil":
	case "pfrom":
		out = append(out, kv{n.Xs[0] + shift, n.Xs[1] + shift})
	case "ptakeWhile":
		f := predP(n)
		for _, p := range evalP(n.L, shift) {
			if !f(p.K, p.V) {
				break
			}
			out = append(out, p)
		}
	case "pdropWhile":
		f := predP(n)
		dropping := true
		for _, p := range evalP(n.L, shift) {
			if dropping && f(p.K, p.V) {
				continue
			}
			dropping = false
			out = append(out, p)
		}
	case "pfilter":
		f := predP(n)
		for _, p := range evalP(n.L, shift) {
			if f(p.K, p.V) {
				out = append(out, p)
			}
		}
	case "pmap":
		f := mapP(n)
		for _, p := range evalP(n.L, shift) {
			out = append(out, kv{p.K, f(p.K, p.V)})
		}
	case "pplus":
		out = append(out, evalP(n.L, shift)...)
		out = append(out, evalP(n.R, shift)...)
	case "pjoin":
		for _, p := range evalP(n.L, shift) {
			if !n.isNil(p.K - p.V) {
				out = append(out, evalP(n.R, shiftP(p.K, p.V))...)
			}
		}
	case "fromSeq":
		for _, x := range evalS(n.L, shift) {
			if !n.isNil(x) {
				out = append(out, evalP(n.R, shiftS(x))...)
			}
		}
	default:
		panic("bad P op " + n.Op)
	}
	return out
}

// ---- tree statistics

func (n *Node) depth() int {
	if n == nil {
		return 0
	}
	return 1 + max(n.L.depth(), n.R.depth())
}

func (n *Node) ops(into map[string]bool) {
	if n == nil {
		return
	}
	into[n.Op] = true
	n.L.ops(into)
	n.R.ops(into)
}

func isLeaf(op string) bool {
	switch op {
	case "nil", "slice", "from", "pnil", "pfrom":
		return true
	}
	return false
}

func sortOf(op string) string {
	switch op {
	case "pnil", "pfrom", "ptakeWhile", "pdropWhile", "pfilter", "pmap", "pplus", "pjoin", "fromSeq":
		return "P"
	}
	return "S"
}

func (n *Node) String() string { return fmt.Sprintf("%+v", *n) }
