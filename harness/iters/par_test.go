package iters

import (
	"strconv"
	"testing"

	"pgregory.net/rapid"
	"verif/harness/vk"
)

// Independent expressions built and drained in different goroutines at the same time (race detector on): an iterator
// is a value of its own; nothing of one expression may be shared with another.
type ParScenario struct {
	Prop  string     `json:"prop"`
	Parts []Scenario `json:"parts"`
}

func runPar(ps ParScenario) string {
	return vk.Par(len(ps.Parts), func(i int) string {
		for rep := 0; rep < 20; rep++ {
			if m := Run(ps.Parts[i]); m != "" {
				return m
			}
		}
		return ""
	})
}

func parProp(t *testing.T, prop string, gen func(*rapid.T) Scenario) {
	rapid.Check(t, func(rt *rapid.T) {
		ps := ParScenario{Prop: prop}
		for k := rapid.IntRange(2, 8).Draw(rt, "goroutines"); k > 0; k-- {
			ps.Parts = append(ps.Parts, gen(rt))
		}
		vk.Journal(prop, "Test"+prop+"Par", ps)
		msg := runPar(ps)
		vk.Record(ps, true, "parallel-independent-expressions", "goroutines="+strconv.Itoa(len(ps.Parts)))
		if msg != "" {
			vk.Fail(prop, "Test"+prop+"Par", "", ps, msg)
			rt.Fatalf("%s", msg)
		}
	})
}

func TestC14Par(t *testing.T) {
	parProp(t, "C14", func(t *rapid.T) Scenario {
		return Scenario{Root: "S", Tree: genS(t, rapid.IntRange(1, 5).Draw(t, "depth"), false), Fail: rapid.IntRange(0, 40).Draw(t, "fail")}
	})
}

func TestC15Par(t *testing.T) {
	parProp(t, "C15", func(t *rapid.T) Scenario {
		return Scenario{Root: "P", Tree: genP(t, rapid.IntRange(2, 5).Draw(t, "depth")), Fail: rapid.IntRange(0, 40).Draw(t, "fail")}
	})
}

func TestReplayPar(t *testing.T) {
	var ps ParScenario
	ok, err := vk.LoadReplay(&ps)
	if !ok {
		t.Skip("no VERIF_REPLAY")
	}
	if err != nil {
		t.Fatalf("bad replay file: %v", err)
	}
	for a := 0; a < 50; a++ {
		if msg := runPar(ps); msg != "" {
			t.Fatalf("attempt %d: %s", a+1, msg)
		}
	}
}
