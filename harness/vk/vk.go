// Package vk is the small kit shared by every property package of the harness:
// run configuration from the environment, evidence statistics, failure and
// journal files.  Nothing in here draws random numbers or reads the clock.
package vk

import (
	"encoding/binary"
	"encoding/json"
	"fmt"
	"hash/fnv"
	"os"
	"path/filepath"
	"runtime"
	"sort"
	"strconv"
	"strings"
	"sync"
	"sync/atomic"
	"syscall"
	"testing"
	"time"
)

// OutDir is where a test process leaves stats.json, hashes.bin, fail.json and journal.json.
func OutDir() string {
	d := os.Getenv("VERIF_OUT")
	if d == "" {
		d = filepath.Join(os.TempDir(), "verif-out-"+strconv.Itoa(os.Getpid()))
	}
	os.MkdirAll(d, 0o755)
	return d
}

// Tier is "quick" or "thorough".
func Tier() string {
	if t := os.Getenv("VERIF_TIER"); t != "" {
		return t
	}
	return "quick"
}

// IntEnv reads an integer knob.
func IntEnv(name string, def int) int {
	if v := os.Getenv(name); v != "" {
		if n, err := strconv.Atoi(v); err == nil {
			return n
		}
	}
	return def
}

const maxHashes = 1 << 20
const maxSamples = 6

type collector struct {
	mu          sync.Mutex
	Evaluations int64
	Nontrivial  int64
	hashes      map[uint64]struct{}
	HashCapHit  bool
	Classes     map[string]int64
	Samples     []json.RawMessage
	Exhaustive  map[string]bool
	Notes       []string
	Excluded    map[string]int64
}

var col = &collector{hashes: map[uint64]struct{}{}, Classes: map[string]int64{}, Exhaustive: map[string]bool{}, Excluded: map[string]int64{}}

// Canon renders a scenario in its canonical (JSON) form.
func Canon(sc any) []byte {
	b, err := json.Marshal(sc)
	if err != nil {
		panic(fmt.Sprintf("vk: scenario not serialisable: %v", err))
	}
	return b
}

// Record counts one executed case.  nontrivial is the property's stated rule
// evaluated on this case; classes feed the generator histogram.
func Record(sc any, nontrivial bool, classes ...string) {
	progress.Add(1)
	RecordCanon(Canon(sc), nontrivial, classes...)
}

// RecordCanon is Record for callers that already hold the canonical form.
func RecordCanon(b []byte, nontrivial bool, classes ...string) {
	col.mu.Lock()
	defer col.mu.Unlock()
	col.Evaluations++
	for _, c := range classes {
		col.Classes[c]++
	}
	if !nontrivial {
		return
	}
	col.Nontrivial++
	if len(col.hashes) < maxHashes {
		h := fnv.New64a()
		h.Write(b)
		k := h.Sum64()
		if _, seen := col.hashes[k]; !seen {
			col.hashes[k] = struct{}{}
			if len(col.Samples) < maxSamples && len(b) < 4000 {
				// spread the samples: take the 1st, 2nd, 4th, 8th ... distinct non-trivial case
				n := len(col.hashes)
				if n&(n-1) == 0 {
					col.Samples = append(col.Samples, append(json.RawMessage(nil), b...))
				}
			}
		}
	} else {
		col.HashCapHit = true
	}
}

// Class bumps a histogram class without counting a case.
func Class(c string, n int64) {
	col.mu.Lock()
	col.Classes[c] += n
	col.mu.Unlock()
}

// Excluded counts cases the generator left out by construction (known findings).
func Excluded(what string) {
	col.mu.Lock()
	col.Excluded[what]++
	col.mu.Unlock()
}

// Exhaustive marks a named sub-space as completely enumerated by this run.
func Exhaustive(name string) {
	col.mu.Lock()
	col.Exhaustive[name] = true
	col.mu.Unlock()
}

// Note attaches free text to the evidence.
func Note(s string) {
	col.mu.Lock()
	col.Notes = append(col.Notes, s)
	col.mu.Unlock()
}

// Failure is what fail.json holds: the (shrunk) scenario and what went wrong.
type Failure struct {
	Property  string          `json:"property"`
	Test      string          `json:"test"`
	Signature string          `json:"signature,omitempty"`
	Message   string          `json:"message"`
	Scenario  json.RawMessage `json:"scenario"`
	Procs     int             `json:"gomaxprocs,omitempty"` // GOMAXPROCS of the process that found it, when the driver pinned it (a replay restores it)
}

// procs is the GOMAXPROCS value pinned by the driver for this shard (0: not pinned).
func procs() int {
	n, _ := strconv.Atoi(os.Getenv("VERIF_GOMAXPROCS"))
	return n
}

// Fail records a failing scenario.  rapid re-runs the minimal case last, so the
// file left behind after shrinking is the minimal reproduction.
func Fail(prop, test, signature string, sc any, msg string) {
	f := Failure{Property: prop, Test: test, Signature: signature, Message: msg, Scenario: Canon(sc), Procs: procs()}
	b, _ := json.MarshalIndent(f, "", " ")
	os.WriteFile(filepath.Join(OutDir(), "fail.json"), b, 0o644)
}

var journalFile *os.File

// Journal overwrites journal.json with the scenario about to be executed, so that
// a process-killing panic in a library goroutine still leaves a reproduction.
func Journal(prop, test string, sc any) {
	progress.Add(1)
	if journalFile == nil {
		f, err := os.OpenFile(filepath.Join(OutDir(), "journal.json"), os.O_CREATE|os.O_RDWR|os.O_TRUNC, 0o644)
		if err != nil {
			return
		}
		journalFile = f
	}
	b, _ := json.Marshal(Failure{Property: prop, Test: test, Message: "process died while executing this scenario", Scenario: Canon(sc), Procs: procs()})
	journalFile.WriteAt(b, 0)
	journalFile.Truncate(int64(len(b)))
}

// Flush writes stats.json and hashes.bin.
func Flush() {
	col.mu.Lock()
	defer col.mu.Unlock()
	dir := OutDir()
	type out struct {
		Evaluations int64             `json:"evaluations"`
		Nontrivial  int64             `json:"nontrivial"`
		Distinct    int               `json:"distinct_nontrivial_local"`
		HashCapHit  bool              `json:"hash_cap_hit"`
		Classes     map[string]int64  `json:"classes"`
		Samples     []json.RawMessage `json:"samples"`
		Exhaustive  []string          `json:"exhaustive"`
		Notes       []string          `json:"notes"`
		Excluded    map[string]int64  `json:"excluded"`
	}
	o := out{Evaluations: col.Evaluations, Nontrivial: col.Nontrivial, Distinct: len(col.hashes), HashCapHit: col.HashCapHit,
		Classes: col.Classes, Samples: col.Samples, Notes: col.Notes, Excluded: col.Excluded}
	for k := range col.Exhaustive {
		o.Exhaustive = append(o.Exhaustive, k)
	}
	sort.Strings(o.Exhaustive)
	b, _ := json.MarshalIndent(o, "", " ")
	os.WriteFile(filepath.Join(dir, "stats.json"), b, 0o644)
	hs := make([]uint64, 0, len(col.hashes))
	for k := range col.hashes {
		hs = append(hs, k)
	}
	sort.Slice(hs, func(i, j int) bool { return hs[i] < hs[j] })
	buf := make([]byte, 8*len(hs))
	for i, h := range hs {
		binary.LittleEndian.PutUint64(buf[8*i:], h)
	}
	os.WriteFile(filepath.Join(dir, "hashes.bin"), buf, 0o644)
}

// Main is the TestMain body of every property package.
// progress counts journalled / recorded scenarios; the watchdog compares it with the CPU time the process consumes.
var progress atomic.Int64

func cpuSeconds() float64 {
	var ru syscall.Rusage
	if syscall.Getrusage(syscall.RUSAGE_SELF, &ru) != nil {
		return 0
	}
	return float64(ru.Utime.Sec+ru.Stime.Sec) + float64(ru.Utime.Usec+ru.Stime.Usec)/1e6
}

// watchdog: a scenario takes milliseconds.  If the process burns 300 s of CPU time without finishing the scenario it is in,
// some goroutine of the code under test neither blocks nor finishes (a livelock, e.g. a loop spinning on a closed channel):
// the bubble cannot call that quiescent and the Go runtime cannot call it a deadlock.  The criterion is CPU time consumed,
// not wall-clock time: a starved or suspended process consumes none and is never judged.
func watchdog() {
	const limit = 300.0
	last, since := progress.Load(), cpuSeconds()
	for {
		time.Sleep(5 * time.Second)
		if p := progress.Load(); p != last {
			last, since = p, cpuSeconds()
			continue
		}
		if used := cpuSeconds() - since; used >= limit {
			f := Failure{Property: Prop(), Message: "no scenario"}
			if b, err := os.ReadFile(filepath.Join(OutDir(), "journal.json")); err == nil {
				json.Unmarshal(b, &f)
			}
			f.Message = fmt.Sprintf("livelock: the process consumed %.0f s of CPU time inside this one scenario without finishing it - a goroutine of the code under test neither blocks nor returns", used)
			b, _ := json.MarshalIndent(f, "", " ")
			os.WriteFile(filepath.Join(OutDir(), "fail.json"), b, 0o644)
			fmt.Fprintln(os.Stderr, f.Message)
			Flush()
			os.Exit(1)
		}
	}
}

func Main(m *testing.M) {
	// the coordinator of a native fuzz run executes no scenario itself (its workers do, each with a watchdog of its own)
	coordinator, worker := false, false
	for _, a := range os.Args {
		coordinator = coordinator || strings.HasPrefix(a, "-test.fuzz=")
		worker = worker || strings.HasPrefix(a, "-test.fuzzworker")
	}
	if !coordinator || worker {
		go watchdog()
	}
	// some shards run on one or two processors: wake-up orders that sixteen processors never produce (one P runs the
	// goroutine readied last first), all inside the same deterministic scripts
	if n := procs(); n > 0 {
		runtime.GOMAXPROCS(n)
	}
	code := m.Run()
	Flush()
	os.Exit(code)
}

// LoadReplay reads the scenario of a replay file (a Failure record, or a bare scenario).
func LoadReplay(into any) (bool, error) {
	p := os.Getenv("VERIF_REPLAY")
	if p == "" {
		return false, nil
	}
	b, err := os.ReadFile(p)
	if err != nil {
		return true, err
	}
	var f Failure
	if err := json.Unmarshal(b, &f); err == nil && len(f.Scenario) > 0 {
		if f.Procs > 0 {
			runtime.GOMAXPROCS(f.Procs)
		}
		return true, json.Unmarshal(f.Scenario, into)
	}
	return true, json.Unmarshal(b, into)
}

// Par runs f(0..n-1) in n goroutines at once and returns the first non-empty message (a panic in a goroutine becomes
// its message).  Used by the "independent instances in parallel" parts, which are built with the race detector.
func Par(n int, f func(i int) string) string {
	msgs := make([]string, n)
	var wg sync.WaitGroup
	start := make(chan struct{})
	for i := 0; i < n; i++ {
		wg.Add(1)
		go func(i int) {
			defer wg.Done()
			defer func() {
				if r := recover(); r != nil {
					msgs[i] = fmt.Sprintf("goroutine %d of %d (each works on instances of its own): panic: %v", i, n, r)
				}
			}()
			<-start
			msgs[i] = f(i)
		}(i)
	}
	close(start)
	wg.Wait()
	for i, m := range msgs {
		if m != "" {
			return fmt.Sprintf("with %d goroutines each working on instances of its own, goroutine %d: %s", n, i, m)
		}
	}
	return ""
}

// Prop is the property the driver runs this process for (VERIF_PROP); packages shared by several properties use it.
func Prop() string {
	if p := os.Getenv("VERIF_PROP"); p != "" {
		return p
	}
	return "C01"
}
