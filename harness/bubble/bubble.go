// Package bubble runs a scenario executor inside a testing/synctest bubble and turns
// whatever ends the bubble abnormally (a panic of the executor, or the runtime's
// "deadlock: ... blocked goroutines remain" verdict) into a plain string.
package bubble

import (
	"fmt"
	"runtime/debug"
	"testing"
	"testing/synctest"
)

// Run executes f in a fresh bubble.  It returns "" when the bubble ended normally:
// f returned and every goroutine started inside the bubble has exited.
func Run(parent *testing.T, f func()) (failure string) {
	defer func() {
		if r := recover(); r != nil {
			// raised by synctest itself in the calling goroutine, e.g.
			// "deadlock: main bubble goroutine has exited but blocked goroutines remain"
			failure = fmt.Sprintf("bubble ended abnormally: %v", r)
		}
	}()
	synctest.Test(parent, func(st *testing.T) {
		defer func() {
			if r := recover(); r != nil {
				failure = fmt.Sprintf("panic in the bubble's root goroutine: %v\n%s", r, debug.Stack())
			}
		}()
		f()
	})
	return failure
}
