#!/usr/bin/env python3
"""Confirm one seeded change in a scratch worktree of /repo (outside /repo and /verif):
   1. it applies and the existing suite still passes with it,
   2. its demonstration fails with the change and passes without it.
   usage: confirm_seed.py <seed-id> <dir with patch.diff + demo + notes.md> [--keep]
   On success the seed is stored as /verif/seeded/<seed-id>/ (patch.diff, demo files, meta.json)."""
import json, os, re, shutil, subprocess, sys, glob

sid, src = sys.argv[1], sys.argv[2]
prop = sid.split('-')[0]
wt = '/tmp/cf-' + sid
ENV = dict(os.environ, GOFLAGS='-mod=mod', GOPROXY='off')
PKGDIR = {'pipe_test': 'pipe', 'fork_test': 'pipe/fork', 'hseq_test': 'hseq', 'optics_test': 'optics', 'duct_test': 'duct',
          'seq_test': 'trait/seq', 'pair_test': 'trait/pair', 'ord_test': 'pure/ord', 'monoid_test': 'pure/monoid', 'eq_test': 'pure/eq',
          'skiplist_test': 'internal/maplike/skiplist', 'slice_test': 'internal/seq/slice', 'list_test': 'internal/seq/list', 'pure_test': 'internal/pipe'}

def sh(cmd, cwd=None, env=ENV, timeout=1500):
    p = subprocess.run(cmd, shell=True, cwd=cwd, env=env, stdout=subprocess.PIPE, stderr=subprocess.STDOUT, text=True, timeout=timeout)
    return p.returncode, p.stdout

def suite():
    bad = []
    for m in ['duct', 'hseq', 'optics', 'pipe', 'pure', 'trait']:
        for attempt in range(10):
            rc, out = sh('go test -vet=off -count=1 ./...', cwd=os.path.join(wt, m))
            if rc == 0:
                break
        if rc != 0:
            bad.append((m, out[-1500:]))
    return bad

def stage_internal(pkgdir):
    """internal/* belongs to no module: copy into a temp module named after the import path its sources use."""
    top = pkgdir.split('/')[1]
    st = wt + '-stage'
    shutil.rmtree(st, ignore_errors=True)
    if top == 'pipe':
        os.makedirs(st)
        for f in glob.glob(os.path.join(wt, 'internal/pipe/*.go')):
            shutil.copy(f, st)
        open(os.path.join(st, 'go.mod'), 'w').write('module github.com/fogfish/golem/pure\n\ngo 1.22\n\nrequire github.com/fogfish/it v1.0.0\n')
        shutil.copy(os.path.join(wt, 'pure/go.sum'), st)
        return st, '.'
    mod = {'maplike': 'github.com/fogfish/golem/maplike', 'seq': 'github.com/fogfish/golem/seq'}[top]
    shutil.copytree(os.path.join(wt, 'internal', top), st)
    open(os.path.join(st, 'go.mod'), 'w').write('module %s\n\ngo 1.22\n\nrequire (\n\tgithub.com/fogfish/golem/pure v0.10.1\n\tgithub.com/fogfish/it v1.0.0\n\tgithub.com/fogfish/it/v2 v2.0.1\n)\n\nreplace github.com/fogfish/golem/pure => %s/pure\n' % (mod, wt))
    shutil.copy(os.path.join(wt, 'pure/go.sum'), st)
    return st, './' + '/'.join(pkgdir.split('/')[2:]) if len(pkgdir.split('/')) > 2 else '.'

def run_demo(demos):
    """returns (ok, output). demos: list of (file, pkgdir)"""
    outs, ok = [], True
    for f, pkgdir in demos:
        names = re.findall(r'^func (Test\w+)\(', open(f).read(), re.M)
        pat = '^(' + '|'.join(names) + ')$'
        env = dict(ENV)
        if 'testing/synctest' in open(f).read():
            env['GOTOOLCHAIN'] = 'go1.26.8'
        if os.path.exists(os.path.join(src, 'go.work')):
            # the demonstration must see the worktree's hseq/pure instead of the cached module versions
            open(os.path.join(wt, 'go.work'), 'w').write('go 1.22\n\nuse (\n\t./hseq\n\t./optics\n\t./pure\n)\n')
            env['GOFLAGS'] = ''
            env['GOWORK'] = os.path.join(wt, 'go.work')
        if pkgdir.startswith('internal/'):
            st, rel = stage_internal(pkgdir)
            dst = os.path.join(st, rel, 'zz_seed_demo_test.go')
            shutil.copy(f, dst)
            rc, out = sh("go test -vet=off -count=1 -run '%s' %s" % (pat, rel), cwd=st, env=env)
            shutil.rmtree(st, ignore_errors=True)
        else:
            dst = os.path.join(wt, pkgdir, 'zz_seed_demo_test.go')
            shutil.copy(f, dst)
            rc, out = sh("go test -vet=off -count=1 -run '%s' ." % pat, cwd=os.path.join(wt, pkgdir), env=env)
            os.remove(dst)
            for extra in ('go.work', 'go.work.sum'):
                if os.path.exists(os.path.join(wt, extra)):
                    os.remove(os.path.join(wt, extra))
        ok = ok and rc == 0
        outs.append(out[-1200:])
    return ok, '\n'.join(outs)

sh('git -C /repo worktree remove --force %s' % wt)
rc, out = sh('git -C /repo worktree add --detach %s HEAD' % wt)
assert rc == 0, out
try:
    patch = os.path.join(src, 'patch.diff')
    rc, out = sh('git apply %s' % patch, cwd=wt)
    if rc != 0:
        rc, out = sh('patch -p1 --no-backup-if-mismatch < %s' % patch, cwd=wt)
    if rc != 0:
        print('RESULT %s APPLY-FAILED\n%s' % (sid, out[-800:])); sys.exit(3)
    demos = []
    for f in sorted(glob.glob(os.path.join(src, '*_test.go'))):
        pkg = re.search(r'^package (\w+)', open(f).read(), re.M).group(1)
        if pkg not in PKGDIR:
            print('RESULT %s UNKNOWN-DEMO-PACKAGE %s' % (sid, pkg)); sys.exit(3)
        if os.path.basename(f).startswith('zz_demo_b_optics'):
            continue  # optional second demo needing a modfile recipe
        where = PKGDIR[pkg]
        if pkg == 'seq_test' and 'fogfish/golem/seq' in open(f).read():
            where = 'internal/seq'  # the internal package has the same test-package name as trait/seq
        demos.append((f, where))
    bad = suite()
    if bad:
        print('RESULT %s SUITE-FAILS-WITH-CHANGE %s\n%s' % (sid, bad[0][0], bad[0][1])); sys.exit(1)
    ok_with, out_with = run_demo(demos)
    rc, out = sh('git diff > /tmp/cf-%s.applied.diff; git checkout -- . ' % sid, cwd=wt)
    ok_without, out_without = run_demo(demos)
    if ok_with:
        print('RESULT %s DEMO-PASSES-WITH-CHANGE\n%s' % (sid, out_with[-800:])); sys.exit(1)
    if not ok_without:
        print('RESULT %s DEMO-FAILS-WITHOUT-CHANGE\n%s' % (sid, out_without[-1200:])); sys.exit(1)
    dst = os.path.join('/verif/seeded', sid)
    shutil.rmtree(dst, ignore_errors=True)
    os.makedirs(dst)
    shutil.copy('/tmp/cf-%s.applied.diff' % sid, os.path.join(dst, 'patch.diff'))
    for f, pkgdir in demos:
        shutil.copy(f, os.path.join(dst, os.path.basename(f)))
    if os.path.exists(os.path.join(src, 'notes.md')):
        shutil.copy(os.path.join(src, 'notes.md'), os.path.join(dst, 'notes.md'))
    head = subprocess.run('git -C /repo log --format=%h -1', shell=True, stdout=subprocess.PIPE, text=True).stdout.strip()
    meta = {'id': sid, 'property': prop, 'base_commit': head,
            'demo': [{'file': os.path.basename(f), 'place_in': pkgdir + '/'} for f, pkgdir in demos],
            'confirmed': {'existing_suite_with_change': 'pass (6 modules, go test -vet=off -count=1 ./...)',
                          'demo_with_change': 'fail', 'demo_without_change': 'pass',
                          'how': 'tools/confirm_seed.py in a scratch git worktree of /repo at %s' % head}}
    json.dump(meta, open(os.path.join(dst, 'meta.json'), 'w'), indent=1)
    print('RESULT %s CONFIRMED' % sid)
finally:
    sh('git -C /repo worktree remove --force %s' % wt)
    for f in glob.glob('/tmp/cf-%s*' % sid):
        if os.path.isfile(f):
            os.remove(f)
