#!/usr/bin/env python3
"""tools/update_meta.py <matrix-output> <round>: fills seeded/<id>/meta.json (breaks, round, checks_run, detected_by_quick)
from the output of tools/seed_matrix.sh for the seeds that do not have these fields yet (or all with --all)."""
import json, os, re, sys
out, rnd = sys.argv[1], int(sys.argv[2])
allf = '--all' in sys.argv
for line in open(out):
    m = re.match(r'^(C\d\d-[A-Z]) (C\d\d) rc=(\d+) \S+ :: ?(.*)$', line.strip())
    if not m:
        continue
    sid, chk, rc, first = m.group(1), m.group(2), int(m.group(3)), m.group(4)
    f = '/verif/seeded/%s/meta.json' % sid
    if not os.path.exists(f):
        continue
    d = json.load(open(f))
    if 'checks_run' in d and not allf:
        continue
    n = '/verif/seeded/%s/notes.md' % sid
    title = ''
    if os.path.exists(n):
        ls = [l.strip() for l in open(n) if l.strip()]
        title = ls[0].lstrip('# ').strip() if ls else ''
    d.setdefault('breaks', d['property'])
    d['mechanism'] = title
    d.setdefault('round', rnd)
    d.setdefault('needs_to_manifest', 'see notes.md (written by the sub-agent that produced the change)')
    d['checks_run'] = [{'cmd': 'VERIF_REPO=<scratch copy of /repo with patch.diff applied> ./check %s quick  (tools/seedrun.sh)' % chk, 'exit': rc, 'first_finding': first}]
    d['detected_by_quick'] = rc == 1
    json.dump(d, open(f, 'w'), indent=1)
    print(sid, chk, rc)
