#!/bin/sh
# tools/refresh_evidence.sh [tier]: run every check at the default seed against /repo so that evidence/*.json is what gets committed.
tier=${1:-quick}
cd "$(dirname "$0")/.."
unset VERIF_SEED VERIF_REPO
rc=0
for p in C01 C02 C03 C04 C05 C06 C07 C08 C09 C10 C11 C12 C13 C14 C15 C16 C17 C18 C19 C20; do
  ./check $p $tier 2>&1 | grep -v conda | tail -1 || rc=1
done
exit $rc
