#!/bin/sh
# tools/trim_cache.sh [minutes]: removes Go build-cache entries that have not been used for the given time (default 90 min).
# The cache marks an entry as used by touching it, so entries in use by running builds are kept; go itself trims only after
# five days, and every generated package of engine E1 leaves some hundred megabytes behind (a long soak filled the disk once).
m=${1:-90}
c=$(go env GOCACHE 2>/dev/null); [ -d "$c" ] || exit 0
find "$c" -type f -mmin +$m ! -name README ! -name trim.txt -delete 2>/dev/null
[ -d /root/.cache/go-build-verif-scratch ] && find /root/.cache/go-build-verif-scratch -type f -mmin +$m -delete 2>/dev/null
exit 0
