#!/bin/sh
# Runs every seeded change against the quick check of its own property (VERIF_REPO scratch copies, 6 at a time)
# and prints "<seed> <check> rc=<n> :: first finding".  Used to fill seeded/*/meta.json and DESIGN.md section 9.
tier=${1:-quick}
cd /verif
ls seeded | xargs -P 6 -I{} sh -c 'p=$(echo {} | cut -d- -f1); [ -f /verif/seeded/{}/check ] && p=$(cat /verif/seeded/{}/check); tools/seedrun.sh /verif/seeded/{}/patch.diff '"$tier"' $p 2>&1 | grep -v conda | sed "s#^#{} #"'
rm -rf /root/.cache/go-build-verif-scratch
tools/trim_cache.sh 120
