#!/bin/sh
# tools/soak.sh <first-seed> <last-seed> [tier]: every check at every seed on the unchanged tree; prints only what is not "OK".
a=${1:-1}; b=${2:-5}; tier=${3:-quick}
cd "$(dirname "$0")/.."
s=$a
while [ $s -le $b ]; do
  for p in C01 C02 C03 C04 C05 C06 C07 C08 C09 C10 C11 C12 C13 C14 C15 C16 C17 C18 C19 C20; do
    out=$(VERIF_SEED=$s ./check $p $tier 2>&1); rc=$?
    if [ $rc -ne 0 ]; then echo "seed=$s $p rc=$rc"; echo "$out" | grep -v conda | head -12; fi
  done
  echo "seed $s done"
  tools/trim_cache.sh 90
  s=$((s+1))
done
