#!/bin/sh
# usage: seedrun.sh <patch.diff> <tier> <Cxx> [Cxx...]
# Applies a seeded change to a scratch copy of /repo (outside /repo and /verif), runs the given checks
# against it through VERIF_REPO, prints one line per check, and removes the copy.
patch=$1; tier=$2; shift 2
d=$(mktemp -d /tmp/seedrun.XXXXXX)
rsync -a --exclude .git /repo/ "$d/"
if ! (cd "$d" && patch -p1 -s --no-backup-if-mismatch < "$patch" >/dev/null 2>&1); then
  echo "APPLY-FAILED $patch"; rm -rf "$d"; exit 3
fi
for c in "$@"; do
  out=$(VERIF_REPO="$d" /verif/check "$c" "$tier" 2>&1); rc=$?
  first=$(echo "$out" | grep -m1 -E '^(---|INCONCLUSIVE)' | cut -c1-220)
  echo "$c rc=$rc $(echo $patch | sed "s#/tmp/out-##;s#/patch.diff##") :: $first"
done
k=$(python3 -c "import hashlib,sys;print(hashlib.sha1(sys.argv[1].encode()).hexdigest()[:10])" "$d")
rm -rf /verif/.work/found-$k /verif/.work/evidence-$k /verif/harness/gen/*-$k
rm -rf "$d" /verif/harness/.stage/$(python3 -c "import hashlib,sys;print(hashlib.sha1(sys.argv[1].encode()).hexdigest()[:10])" "$d") 
rm -f /verif/harness/.mod/$(python3 -c "import hashlib,sys;print(hashlib.sha1(sys.argv[1].encode()).hexdigest()[:10])" "$d").*
rm -rf /verif/harness/.bin/$(python3 -c "import hashlib,sys;print(hashlib.sha1(sys.argv[1].encode()).hexdigest()[:10])" "$d")
