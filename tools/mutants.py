#!/usr/bin/env python3
"""Self-validation (DESIGN.md section 9): small source mutants of fogfish/golem, each applied to a scratch copy of
/repo (never to /repo itself), each run against the quick (or given) tier of the check that must kill it.

    tools/mutants.py [quick|thorough] [id-prefix]

A mutant is (id, property, file, old, new); `old` must occur exactly once in the file.  Prints KILLED / SURVIVED /
INCONCLUSIVE per mutant and a summary; exit 1 if any mutant survives."""
import hashlib, os, shutil, subprocess, sys, tempfile
from concurrent.futures import ThreadPoolExecutor

M = []
def mut(mid, prop, path, old, new, note=''):
    M.append(dict(id=mid, prop=prop, path=path, old=old, new=new, note=note))

L = 'optics/lens.go'; R = 'optics/reflector.go'; HS = 'hseq/hseq.go'; P = 'pipe/pipe.go'; PF = 'pipe/function.go'; FK = 'pipe/fork/fork.go'
ADDR = "uintptr(unsafe.Pointer(s)) + lens.Offset + lens.RootOffs"
mut('C01-put-drops-rootoffs', 'C01', L, "func (lens *lens[S, A]) Put(s *S, a A) *S {\n\t*(*A)(unsafe.Pointer(" + ADDR + ")) = a", "func (lens *lens[S, A]) Put(s *S, a A) *S {\n\t*(*A)(unsafe.Pointer(uintptr(unsafe.Pointer(s)) + lens.Offset)) = a")
mut('C01-get-drops-rootoffs', 'C01', L, "func (lens *lens[S, A]) Get(s *S) A {\n\treturn *(*A)(unsafe.Pointer(" + ADDR + "))", "func (lens *lens[S, A]) Get(s *S) A {\n\treturn *(*A)(unsafe.Pointer(uintptr(unsafe.Pointer(s)) + lens.Offset))")
mut('C01-gett-drops-rootoffs', 'C01', R, "\t\treturn *(*A)(unsafe.Pointer(uintptr(unsafe.Pointer(v)) + lens.Offset + lens.RootOffs))", "\t\treturn *(*A)(unsafe.Pointer(uintptr(unsafe.Pointer(v)) + lens.Offset))")
mut('C01-offset-uint8', 'C01', L, "func (lens *lens[S, A]) Put(s *S, a A) *S {\n\t*(*A)(unsafe.Pointer(" + ADDR + ")) = a", "func (lens *lens[S, A]) Put(s *S, a A) *S {\n\t*(*A)(unsafe.Pointer(uintptr(unsafe.Pointer(s)) + uintptr(uint8(lens.Offset)) + lens.RootOffs)) = a", 'offsets above 255 wrap')
mut('C01-put-copy', 'C01', L, "func (lens *lens[S, A]) Put(s *S, a A) *S {\n\t*(*A)(unsafe.Pointer(" + ADDR + ")) = a\n\treturn s", "func (lens *lens[S, A]) Put(s *S, a A) *S {\n\tc := *s\n\ts = &c\n\t*(*A)(unsafe.Pointer(" + ADDR + ")) = a\n\treturn s", 'writes a copy and returns it')
mut('C01-fmap5-slot', 'C01', HS, "\t\tfd(ts[3]),\n\t\tfe(ts[4])\n}", "\t\tfd(ts[3]),\n\t\tfe(ts[3])\n}", 'ForProduct5 pairs the fourth entry twice')
mut('C01-unfold-offset', 'C01', HS, "seq = unfold(ft, seq, offset+fv.Offset)", "seq = unfold(ft, seq, fv.Offset)")

GUARD = "if ft.String() == fv.String() && ft.AssignableTo(fv) {\n\t\tassertContainer[S]()\n\t\tassertInline(t)\n\t\treturn &lens[S, A]{t}\n\t}\n\n\tcat := reflect.TypeOf(new(S)).Elem()\n\tpanic(fmt.Errorf(\"invalid type: Lens["
mut('C02-guard-kind', 'C02', L, GUARD, GUARD.replace("ft.String() == fv.String() && ft.AssignableTo(fv)", "ft.Kind() == fv.Kind()"))
mut('C02-guard-string', 'C02', L, GUARD, GUARD.replace("ft.String() == fv.String() && ft.AssignableTo(fv)", "ft.String() == fv.String() || ft.AssignableTo(fv)"))
mut('C02-guard-convertible', 'C02', L, GUARD, GUARD.replace("ft.String() == fv.String() && ft.AssignableTo(fv)", "ft.ConvertibleTo(fv)"))
mut('C02-no-container-check', 'C02', L,  # still panics: assertInline calls NumField on the pointer type
     "\t\tassertContainer[S]()\n\t\tassertInline(t)\n\t\treturn &lens[S, A]{t}\n\t}\n\n\tcat := reflect.TypeOf(new(S)).Elem()\n\tpanic(fmt.Errorf(\"invalid type: Lens[", "\t\tassertInline(t)\n\t\treturn &lens[S, A]{t}\n\t}\n\n\tcat := reflect.TypeOf(new(S)).Elem()\n\tpanic(fmt.Errorf(\"invalid type: Lens[")
mut('C02-inline-only-first-level', 'C02', L, "if found, via := viaPointer(ft, id, indirect || ptr); found {", "if found, via := viaPointer(ft, id, ptr); found {", 'forgets a pointer crossed further up')
mut('C02-forname-zero', 'C02', HS, "\terr := errType{\n\t\tIssue: fmt.Sprintf(\"field `%s` is not member of a struct `%s`\", field, outerT),", "\tif len(seq) > 0 {\n\t\treturn Type[T]{}\n\t}\n\terr := errType{\n\t\tIssue: fmt.Sprintf(\"field `%s` is not member of a struct `%s`\", field, outerT),", 'ForName returns the zero Type instead of panicking')
mut('C02-putt-accepts-value', 'C02', R, "func (lens *lens[S, A]) Putt(s any, a A) any {\n\tswitch v := s.(type) {\n\tcase *S:", "func (lens *lens[S, A]) Putt(s any, a A) any {\n\tswitch v := s.(type) {\n\tcase S:\n\t\treturn v\n\tcase *S:", 'Putt silently accepts S by value')
mut('C02-spectrum3-slice', 'C02', R, "seq = hseq.New[T](attr[0:3:len(attr)]...)", "seq = hseq.New[T](attr[0:3]...)")

mut('C03-id-local', 'C03', HS, "\t\t\tseq = append(seq, Type[T]{\n\t\t\t\tStructField: fv,\n\t\t\t\tRootOffs:    offset,\n\t\t\t\tPureType:    ft,\n\t\t\t\tID:          len(seq),\n\t\t\t})\n\t\t}\n\t}", "\t\t\tseq = append(seq, Type[T]{\n\t\t\t\tStructField: fv,\n\t\t\t\tRootOffs:    offset,\n\t\t\t\tPureType:    ft,\n\t\t\t\tID:          i,\n\t\t\t})\n\t\t}\n\t}", 'ID is the position inside the owning struct')
mut('C03-key-whole-tag', 'C03', HS, "tag := strings.Split(t.StructField.Tag.Get(\"hseq\"), \",\")[0]", "tag := strings.TrimSpace(t.StructField.Tag.Get(\"hseq\"))")
mut('C03-forname-backwards', 'C03', HS, "func ForName[T any](seq Seq[T], field string) Type[T] {\n\tfor _, f := range seq {\n\t\tif f.FieldKey() == field {\n\t\t\treturn f\n\t\t}\n\t}", "func ForName[T any](seq Seq[T], field string) Type[T] {\n\tfor i := len(seq) - 1; i >= 0; i-- {\n\t\tif f := seq[i]; f.FieldKey() == field {\n\t\t\treturn f\n\t\t}\n\t}")
mut('C03-ptr-embed-not-descended', 'C03', HS, "if fv.Anonymous && ft.Kind() == reflect.Struct {", "if fv.Anonymous && fv.Type.Kind() == reflect.Struct {")
mut('C03-fmap3-slot', 'C03', HS, "\treturn fa(ts[0]),\n\t\tfb(ts[1]),\n\t\tfc(ts[2])\n}", "\treturn fa(ts[0]),\n\t\tfb(ts[1]),\n\t\tfc(ts[1])\n}")
mut('C03-fortype-assignable-only', 'C03', HS, "if ft.String() == val.String() && ft.AssignableTo(val) {", "if ft.AssignableTo(val) {")
mut('C03-new7-order', 'C03', HS, "\t\tForType[E](seq),\n\t\tForType[F](seq),\n\t\tForType[G](seq),\n\t}\n}", "\t\tForType[F](seq),\n\t\tForType[E](seq),\n\t\tForType[G](seq),\n\t}\n}", 'New7 swaps two positions')

I = 'optics/iso.go'; SH = 'optics/shape.go'
mut('C04-join-no-writeback', 'C04', L, "\tlens.b.Put(&va, b)\n\tlens.a.Put(s, va)\n\treturn s", "\tlens.b.Put(&va, b)\n\treturn s")
mut('C04-morphism-inverse-forward', 'C04', I, "\t\t\tiso.Inverse(t, s)", "\t\t\tiso.Forward(s, t)")
mut('C04-getter-writes', 'C04', I, "func (c fmap[S, A, B]) Put(s *S, b B) *S { return s }", "func (c fmap[S, A, B]) Put(s *S, b B) *S { var z A; return c.lens.Put(s, z) }")
mut('C04-lensm-replaces-map', 'C04', L, "\t(*s)[lens.key] = a\n\treturn s", "\tm := S{}\n\tfor k, v := range *s {\n\t\tm[k] = v\n\t}\n\tm[lens.key] = a\n\t*s = m\n\treturn s")
mut('C04-codec-get-skips-fmap', 'C04', I, "func (c codec[S, A, B]) Put(s *S, b B) *S { return c.lens.Put(s, c.cmap(b)) }", "func (c codec[S, A, B]) Put(s *S, b B) *S { return c.lens.Put(s, c.cmap(c.fmap(c.cmap(b)))) }", 'Put converts three times (identity only for involutions)')
mut('C04-setter-get-leaks', 'C04', I, "func (c cmap[S, A, B]) Get(s *S) B       { return *new(B) }", "func (c cmap[S, A, B]) Get(s *S) B       { c.lens.Put(s, c.lens.Get(s)); var b B; return b }", 'harmless looking but fine: must stay green', )
mut('C04-iso-forward-swapped', 'C04', I, "func (iso iso[S, T, A]) Inverse(t *T, s *S) { iso.sa.Put(s, iso.ta.Get(t)) }", "func (iso iso[S, T, A]) Inverse(t *T, s *S) { iso.ta.Put(t, iso.sa.Get(s)) }")

mut('C05-takewhile-emits-failing', 'C05', P, "\t\t\tif take, err := f.Apply(a); !take || err != nil {\n\t\t\t\treturn\n\t\t\t}\n\n\t\t\tselect {\n\t\t\tcase out <- a:\n\t\t\tcase <-ctx.Done():\n\t\t\t\treturn\n\t\t\t}", "\t\t\ttake, err := f.Apply(a)\n\n\t\t\tselect {\n\t\t\tcase out <- a:\n\t\t\tcase <-ctx.Done():\n\t\t\t\treturn\n\t\t\t}\n\t\t\tif !take || err != nil {\n\t\t\t\treturn\n\t\t\t}")
mut('C05-fold-combine-swapped', 'C05', P, "func Fold[A any](ctx context.Context, in <-chan A, m monoid.Monoid[A]) <-chan A {\n\tdone := make(chan A, 1)\n\n\tgo func() {\n\t\tdefer close(done)\n\n\t\tacc := m.Empty()\n\n\t\tvar x A\n\t\tfor x = range in {\n\t\t\tacc = m.Combine(acc, x)", "func Fold[A any](ctx context.Context, in <-chan A, m monoid.Monoid[A]) <-chan A {\n\tdone := make(chan A, 1)\n\n\tgo func() {\n\t\tdefer close(done)\n\n\t\tacc := m.Empty()\n\n\t\tvar x A\n\t\tfor x = range in {\n\t\t\tacc = m.Combine(x, acc)")
mut('C05-fold-from-zero', 'C05', P, "\t\tdefer close(done)\n\n\t\tacc := m.Empty()\n\n\t\tvar x A", "\t\tdefer close(done)\n\n\t\tvar acc A\n\n\t\tvar x A")
mut('C05-filter-or', 'C05', P, "if take, err := f.Apply(a); take && err == nil {\n\t\t\t\tselect {\n\t\t\t\tcase out <- a:\n\t\t\t\tcase <-ctx.Done():\n\t\t\t\t\treturn\n\t\t\t\t}\n\t\t\t}\n\t\t}\n\t}()\n\n\treturn out\n}\n\n// ForEach", "if take, err := f.Apply(a); take || err != nil {\n\t\t\t\tselect {\n\t\t\t\tcase out <- a:\n\t\t\t\tcase <-ctx.Done():\n\t\t\t\t\treturn\n\t\t\t\t}\n\t\t\t}\n\t\t}\n\t}()\n\n\treturn out\n}\n\n// ForEach", 'equivalent for pure functions (err is always nil): must stay green unless take is inverted')
mut('C05-partition-swapped-capacity', 'C05', P, "\trout := make(chan A, cap(in))\n", "\trout := make(chan A, 0)\n", 'allowed: capacities of outputs are not part of the statement... still must deliver')
mut('C05-map-skips-equal-neighbours', 'C05', P, "\t\tfor a = range in {\n\t\t\tval, err = f.Apply(a)\n\t\t\tif err != nil {\n\t\t\t\tif !f.catch(ctx, err, exx) {\n\t\t\t\t\treturn\n\t\t\t\t}\n\t\t\t\tcontinue\n\t\t\t}\n\n\t\t\tselect {\n\t\t\tcase out <- val:\n\t\t\tcase <-ctx.Done():\n\t\t\t\treturn\n\t\t\t}\n\t\t}\n\t}()\n\n\treturn out, exx\n}\n\n// Partition", "\t\tvar seen bool\n\t\tvar last A\n\t\tfor a = range in {\n\t\t\tif seen && any(a) == any(last) {\n\t\t\t\tcontinue\n\t\t\t}\n\t\t\tseen, last = true, a\n\t\t\tval, err = f.Apply(a)\n\t\t\tif err != nil {\n\t\t\t\tif !f.catch(ctx, err, exx) {\n\t\t\t\t\treturn\n\t\t\t\t}\n\t\t\t\tcontinue\n\t\t\t}\n\n\t\t\tselect {\n\t\t\tcase out <- val:\n\t\t\tcase <-ctx.Done():\n\t\t\t\treturn\n\t\t\t}\n\t\t}\n\t}()\n\n\treturn out, exx\n}\n\n// Partition", 'Map drops an element equal to its predecessor')

mut('C06-map-no-ctx-arm', 'C06', P, "\t\t\tselect {\n\t\t\tcase out <- val:\n\t\t\tcase <-ctx.Done():\n\t\t\t\treturn\n\t\t\t}\n\t\t}\n\t}()\n\n\treturn out, exx\n}\n\n// Partition", "\t\t\tout <- val\n\t\t}\n\t}()\n\n\treturn out, exx\n}\n\n// Partition")
mut('C06-partition-no-close-left', 'C06', P, "\t\tdefer close(rout)\n\t\tdefer close(lout)\n", "\t\tdefer close(rout)\n")
mut('C06-join-closer-no-wait', 'C06', P, "\tgo func() {\n\t\twg.Wait()\n\t\tclose(out)\n\t}()\n\n\treturn out\n}\n\n// returns a newly-allocated channel containing the first n", "\tgo func() {\n\t\tif len(in) > 2 {\n\t\t\twg.Wait()\n\t\t}\n\t\tclose(out)\n\t}()\n\n\treturn out\n}\n\n// returns a newly-allocated channel containing the first n")
mut('C06-try-catch-no-ctx', 'C06', PF, "func (f try[A, B]) catch(ctx context.Context, err error, exx chan<- error) bool {\n\tselect {\n\tcase exx <- err:\n\tcase <-ctx.Done():\n\t\treturn false\n\t}\n\treturn true\n}", "func (f try[A, B]) catch(ctx context.Context, err error, exx chan<- error) bool {\n\texx <- err\n\treturn true\n}")
mut('C06-throttle-data-no-ctx', 'C06', P, "\t\t\tselect {\n\t\t\tcase <-ctl:\n\t\t\tcase <-ctx.Done():\n\t\t\t\treturn\n\t\t\t}\n", "\t\t\t<-ctl\n")
mut('C06-emit-no-ctx', 'C06', P, "\t\t\tselect {\n\t\t\tcase out <- val:\n\t\t\tcase <-ctx.Done():\n\t\t\t\treturn\n\t\t\t}\n\t\t}\n\t}()\n\n\treturn out, exx\n}\n\n// Filter returns", "\t\t\tselect {\n\t\t\tcase out <- val:\n\t\t\tcase <-ctx.Done():\n\t\t\t\tif i%2 == 0 {\n\t\t\t\t\treturn\n\t\t\t\t}\n\t\t\t}\n\t\t}\n\t}()\n\n\treturn out, exx\n}\n\n// Filter returns", 'Emit ignores the cancel on odd indices: keeps emitting after cancel but terminates... one tick later')
mut('C06-void-no-close', 'C06', P, "func Void[A any](ctx context.Context, in <-chan A) <-chan struct{} {\n\tdone := make(chan struct{})\n\n\tgo func() {\n\t\tdefer close(done)\n", "func Void[A any](ctx context.Context, in <-chan A) <-chan struct{} {\n\tdone := make(chan struct{})\n\n\tgo func() {\n\t\tdefer func() {\n\t\t\tif ctx.Err() == nil {\n\t\t\t\tclose(done)\n\t\t\t}\n\t\t}()\n", 'Void closes only when not cancelled')

mut('C07-lift-continues', 'C07', PF, "func (f pure[A, B]) catch(ctx context.Context, err error, exx chan<- error) bool {\n\texx <- err\n\treturn false\n}", "func (f pure[A, B]) catch(ctx context.Context, err error, exx chan<- error) bool {\n\tselect {\n\tcase exx <- err:\n\tdefault:\n\t}\n\treturn true\n}", 'fail-fast keeps going after the first error')
mut('C07-try-stops', 'C07', PF, "func (f try[A, B]) catch(ctx context.Context, err error, exx chan<- error) bool {\n\tselect {\n\tcase exx <- err:\n\tcase <-ctx.Done():\n\t\treturn false\n\t}\n\treturn true\n}", "func (f try[A, B]) catch(ctx context.Context, err error, exx chan<- error) bool {\n\tselect {\n\tcase exx <- err:\n\tcase <-ctx.Done():\n\t\treturn false\n\t}\n\treturn false\n}")
mut('C07-map-emits-zero-on-error', 'C07', P, "\t\t\tval, err = f.Apply(a)\n\t\t\tif err != nil {\n\t\t\t\tif !f.catch(ctx, err, exx) {\n\t\t\t\t\treturn\n\t\t\t\t}\n\t\t\t\tcontinue\n\t\t\t}\n\n\t\t\tselect {\n\t\t\tcase out <- val:\n\t\t\tcase <-ctx.Done():\n\t\t\t\treturn\n\t\t\t}\n\t\t}\n\t}()\n\n\treturn out, exx\n}\n\n// Partition", "\t\t\tval, err = f.Apply(a)\n\t\t\tif err != nil {\n\t\t\t\tif !f.catch(ctx, err, exx) {\n\t\t\t\t\treturn\n\t\t\t\t}\n\t\t\t}\n\n\t\t\tselect {\n\t\t\tcase out <- val:\n\t\t\tcase <-ctx.Done():\n\t\t\t\treturn\n\t\t\t}\n\t\t}\n\t}()\n\n\treturn out, exx\n}\n\n// Partition", 'missing continue: the zero value is emitted for a failing element')
mut('C07-tryf-drops-when-full', 'C07', PF, "func (f tryf[A, B]) catch(ctx context.Context, err error, exx chan<- error) bool {\n\tselect {\n\tcase exx <- err:\n\tcase <-ctx.Done():\n\t\treturn false\n\t}\n\treturn true\n}", "func (f tryf[A, B]) catch(ctx context.Context, err error, exx chan<- error) bool {\n\tselect {\n\tcase exx <- err:\n\tcase <-ctx.Done():\n\t\treturn false\n\tdefault:\n\t}\n\treturn true\n}")
mut('C07-unfold-error-seed', 'C07', P, "\t\t\tseed, err = f.Apply(seed)\n\t\t\tif err != nil {\n\t\t\t\tif !f.catch(ctx, err, exx) {\n\t\t\t\t\treturn\n\t\t\t\t}\n\t\t\t\tcontinue\n\t\t\t}", "\t\t\tseed, err = f.Apply(seed)\n\t\t\tif err != nil {\n\t\t\t\tf.catch(ctx, err, exx)\n\t\t\t\tcontinue\n\t\t\t}", 'Unfold under Lift goes on after the failure')

Q = 'pipe/queue.go'; U = 'pipe/unbound.go'
mut('C08-enq-keeps-next', 'C08', Q, "\tval.value = x\n\tval.next = nil\n", "\tval.value = x\n", 'recycled node keeps its old next pointer')
mut('C08-emit-on-empty', 'C08', Q, "func emit[A any](ch chan<- A, queue *queue[A]) chan<- A {\n\tif queue.head == nil {\n\t\treturn nil\n\t}\n\treturn ch", "func emit[A any](ch chan<- A, queue *queue[A]) chan<- A {\n\treturn ch", 'zero values invented on an empty queue')
mut('C08-no-flush-on-cancel', 'C08', U, "\t\t\t\t\tfor x := range in {\n\t\t\t\t\t\tenq(&x, mq)\n\t\t\t\t\t}\n\t\t\t\t}\n\t\t\t\tflush()\n\t\t\t\treturn", "\t\t\t\t\tfor x := range in {\n\t\t\t\t\t\tenq(&x, mq)\n\t\t\t\t\t}\n\t\t\t\t}\n\t\t\t\treturn")
mut('C08-no-drain-after-close', 'C08', U, "\t\t\t\t\tclose(in)\n\t\t\t\t\tfor x := range in {\n\t\t\t\t\t\tenq(&x, mq)\n\t\t\t\t\t}\n", "\t\t\t\t\tclose(in)\n", 'the residue repaired by fix D4b')
mut('C08-no-flush-on-close', 'C08', U, "\t\t\t\t\t// closed by the sender: deliver the backlog, then end the stream\n\t\t\t\t\tflush()\n\t\t\t\t\treturn", "\t\t\t\t\treturn")
mut('C08-deq-tail', 'C08', Q, "\tif val == queue.tail {\n\t\tqueue.tail = nil\n\t}\n", "", 'tail keeps pointing at a recycled node')

mut('C09-closer-before-wait', 'C09', FK, "\tgo func() {\n\t\twg.Wait()\n\t\tclose(out)\n\t}()\n\n\treturn out\n}\n\n// ForEach applies", "\tgo func() {\n\t\tif par == 1 {\n\t\t\twg.Wait()\n\t\t}\n\t\tclose(out)\n\t}()\n\n\treturn out\n}\n\n// ForEach applies", 'fork.Filter closes before the workers finished when par > 1')
mut('C09-map-add-par-minus-1', 'C09', FK, "\twg.Add(par)\n\tfor i := 1; i <= par; i++ {\n\t\tgo pmap()\n\t}\n\n\tgo func() {\n\t\twg.Wait()\n\t\tclose(out)\n\t\tclose(exx)\n\t}()\n\n\treturn out, exx\n}\n\n// Partition", "\twg.Add(par - 1)\n\tfor i := 1; i <= par; i++ {\n\t\tgo pmap()\n\t}\n\n\tgo func() {\n\t\twg.Wait()\n\t\tclose(out)\n\t\tclose(exx)\n\t}()\n\n\treturn out, exx\n}\n\n// Partition")
mut('C09-partition-applies-twice', 'C09', FK, "\t\tfor a = range in {\n\t\t\tselect {\n\t\t\tcase sel(f.Apply(a)) <- a:\n\t\t\tcase <-ctx.Done():\n\t\t\t\treturn\n\t\t\t}\n\t\t}\n\t}\n\n\twg.Add(par)", "\t\tfor a = range in {\n\t\t\tf.Apply(a)\n\t\t\tselect {\n\t\t\tcase sel(f.Apply(a)) <- a:\n\t\t\tcase <-ctx.Done():\n\t\t\t\treturn\n\t\t\t}\n\t\t}\n\t}\n\n\twg.Add(par)")
mut('C09-foreach-shared-var', 'C09', FK, "\tdone := make(chan struct{})\n\n\tfmap := func() {\n\t\tdefer wg.Done()\n\n\t\tvar a A\n\t\tfor a = range in {\n\t\t\tf.Apply(a)", "\tdone := make(chan struct{})\n\n\tvar a A\n\tfmap := func() {\n\t\tdefer wg.Done()\n\n\t\tfor a = range in {\n\t\t\tf.Apply(a)", 'loop variable shared between the workers of ForEach (data race, duplicates)')

mut('C10-collector-par-minus-1', 'C10', FK, "\t\tfor i := 1; i <= par; i++ {\n\t\t\tacc = m.Combine(acc, <-vals)\n\t\t}", "\t\tfor i := 1; i < par; i++ {\n\t\t\tacc = m.Combine(acc, <-vals)\n\t\t}")
mut('C10-worker-from-zero', 'C10', FK, "\tpfold := func() {\n\t\tacc := m.Empty()\n", "\tpfold := func() {\n\t\tvar acc A\n")
mut('C10-empty-counted-per-worker', 'C10', FK, "\t\tacc := m.Empty()\n\t\tfor i := 1; i <= par; i++ {\n\t\t\tacc = m.Combine(acc, <-vals)\n\t\t}", "\t\tacc := <-vals\n\t\tfor i := 2; i <= par; i++ {\n\t\t\tacc = m.Combine(acc, <-vals)\n\t\t}", 'equivalent for a true identity: must stay green')

mut('C11-unfold-applies-first', 'C11', P, "\t\tfor {\n\t\t\tselect {\n\t\t\tcase out <- seed:\n\t\t\tcase <-ctx.Done():\n\t\t\t\treturn\n\t\t\t}\n\n\t\t\tseed, err = f.Apply(seed)\n\t\t\tif err != nil {\n\t\t\t\tif !f.catch(ctx, err, exx) {\n\t\t\t\t\treturn\n\t\t\t\t}\n\t\t\t\tcontinue\n\t\t\t}\n\t\t}", "\t\tfor {\n\t\t\tseed, err = f.Apply(seed)\n\t\t\tif err != nil {\n\t\t\t\tif !f.catch(ctx, err, exx) {\n\t\t\t\t\treturn\n\t\t\t\t}\n\t\t\t\tcontinue\n\t\t\t}\n\n\t\t\tselect {\n\t\t\tcase out <- seed:\n\t\t\tcase <-ctx.Done():\n\t\t\t\treturn\n\t\t\t}\n\t\t}")
mut('C11-emit-from-one', 'C11', P, "\t\tfor i := 0; true; i++ {\n\t\t\ttime.Sleep(frequency)", "\t\tfor i := 1; true; i++ {\n\t\t\ttime.Sleep(frequency)")
mut('C11-emit-sleep-after-first', 'C11', P, "\t\tfor i := 0; true; i++ {\n\t\t\ttime.Sleep(frequency)\n", "\t\tfor i := 0; true; i++ {\n\t\t\tif i != 3 {\n\t\t\t\ttime.Sleep(frequency)\n\t\t\t}\n", 'one tick is skipped')
mut('C11-emit-repeats-after-error', 'C11', P, "\t\t\tval, err = f.Apply(i)\n\t\t\tif err != nil {\n\t\t\t\tif !f.catch(ctx, err, exx) {\n\t\t\t\t\treturn\n\t\t\t\t}\n\t\t\t\tcontinue\n\t\t\t}", "\t\t\tval, err = f.Apply(i)\n\t\t\tif err != nil {\n\t\t\t\tif !f.catch(ctx, err, exx) {\n\t\t\t\t\treturn\n\t\t\t\t}\n\t\t\t\ti++\n\t\t\t\tcontinue\n\t\t\t}", 'an index is skipped after a Try failure')

mut('C12-join-add-one', 'C12', P, "\twg.Add(len(in))\n\tfor _, c := range in {\n\t\tgo join(c)\n\t}", "\twg.Add(min(len(in), 1))\n\tfor _, c := range in {\n\t\tgo join(c)\n\t}")
mut('C12-join-skips', 'C12', P, "\t\tfor x := range c {\n\t\t\tselect {\n\t\t\tcase out <- x:\n\t\t\tcase <-ctx.Done():\n\t\t\t\treturn\n\t\t\t}\n\t\t}\n\t}\n\n\twg.Add(len(in))", "\t\tfor x := range c {\n\t\t\tselect {\n\t\t\tcase out <- x:\n\t\t\tcase <-ctx.Done():\n\t\t\t\treturn\n\t\t\tdefault:\n\t\t\t\tif len(in) > 2 {\n\t\t\t\t\tcontinue\n\t\t\t\t}\n\t\t\t\tout <- x\n\t\t\t}\n\t\t}\n\t}\n\n\twg.Add(len(in))", 'an element is dropped when the output is busy and there are more than two inputs')

mut('C13-pacer-no-wait', 'C13', P, "\t\t\tselect {\n\t\t\tcase <-time.After(interval):\n\t\t\tcase <-ctx.Done():\n\t\t\t\treturn\n\t\t\t}\n\t\t}\n\t}()", "\t\t\tselect {\n\t\t\tcase <-time.After(interval / 2):\n\t\t\tcase <-ctx.Done():\n\t\t\t\treturn\n\t\t\t}\n\t\t}\n\t}()", 'half the interval')
mut('C13-ops-plus-one', 'C13', P, "\t\t\tfor i := 0; i < ops; i++ {\n\t\t\t\tselect {\n\t\t\t\tcase ctl <- struct{}{}:", "\t\t\tfor i := 0; i <= ops; i++ {\n\t\t\t\tselect {\n\t\t\t\tcase ctl <- struct{}{}:")
mut('C13-ctl-capacity', 'C13', P, "\tctl := make(chan struct{}, ops)\n", "\tctl := make(chan struct{}, 2*ops+2)\n")

SQ = 'trait/seq/seq.go'; PR = 'trait/pair/pair.go'
mut('C14-plus-returns-early', 'C14', SQ, "\tif !hasNext && plus.rhs != nil {\n\t\tplus.Seq, plus.rhs = plus.rhs, nil\n\t\treturn true\n\t}", "\tif !hasNext && plus.rhs != nil {\n\t\tplus.Seq, plus.rhs = plus.rhs, nil\n\t\treturn plus.Seq.Next()\n\t}", 'first element of the right operand is skipped')
mut('C14-filter-one-miss', 'C14', SQ, "\tfor {\n\t\tif !seq.Seq.Next() {\n\t\t\treturn false\n\t\t}\n\n\t\tif seq.f(seq.Value()) {\n\t\t\treturn true\n\t\t}\n\t}\n}\n\n// ForEach", "\tfor i := 0; i < 2; i++ {\n\t\tif !seq.Seq.Next() {\n\t\t\treturn false\n\t\t}\n\n\t\tif seq.f(seq.Value()) {\n\t\t\treturn true\n\t\t}\n\t}\n\treturn false\n}\n\n// ForEach", 'Filter gives up after two consecutive misses')
mut('C14-dropwhile-drops-one-more', 'C14', SQ, "\tfor {\n\t\tif !f(seq.Value()) {\n\t\t\treturn seq\n\t\t}\n\n\t\tif !seq.Next() {\n\t\t\treturn nil\n\t\t}\n\t}\n}\n\n// Filter values", "\tdropped := 0\n\tfor {\n\t\tif !f(seq.Value()) {\n\t\t\tif dropped >= 3 && seq.Next() {\n\t\t\t\treturn seq\n\t\t\t}\n\t\t\treturn seq\n\t\t}\n\t\tdropped++\n\n\t\tif !seq.Next() {\n\t\t\treturn nil\n\t\t}\n\t}\n}\n\n// Filter values", 'after dropping three or more, one more element is lost')
mut('C14-foreach-swallows-last-error', 'C14', SQ, "\tfor has := seq != nil; has; has = seq.Next() {\n\t\tif err := f(seq.Value()); err != nil {\n\t\t\treturn err\n\t\t}\n\t}\n\n\treturn nil\n}\n\n// Map transform", "\tvar err error\n\tfor has := seq != nil; has && err == nil; has = seq.Next() {\n\t\terr = f(seq.Value())\n\t}\n\n\treturn err\n}\n\n// Map transform", 'ForEach advances the iterator once more after the failing callback: the traversal does not stop with the first error (seeds C15-E, C14-G; classified as equivalent until round 4, see DESIGN 10.15)')
mut('C15-map-stale-key', 'C15', PR, "func (plus *plus[K, V]) Next() bool {\n\thasNext := plus.Seq.Next()\n\n\tif !hasNext && plus.rhs != nil {\n\t\tplus.Seq, plus.rhs = plus.rhs, nil\n\t\treturn true\n\t}", "func (plus *plus[K, V]) Next() bool {\n\thasNext := plus.Seq.Next()\n\n\tif !hasNext && plus.rhs != nil {\n\t\tplus.Seq, plus.rhs = plus.rhs, nil\n\t\treturn plus.Seq != nil\n\t}")
mut('C15-toseq-skips-after-nil', 'C15', PR, "func (join *toSeq[K1, V1, V2]) Next() bool {\n\tif !join.Seq.Next() {\n\t\tfor {\n\t\t\tif !join.lhs.Next() {\n\t\t\t\treturn false\n\t\t\t}\n\n\t\t\tjoin.Seq = join.rhs(join.lhs.Key(), join.lhs.Value())\n\t\t\tif join.Seq != nil {\n\t\t\t\treturn true\n\t\t\t}\n\t\t}\n\t}", "func (join *toSeq[K1, V1, V2]) Next() bool {\n\tif !join.Seq.Next() {\n\t\tfor {\n\t\t\tif !join.lhs.Next() {\n\t\t\t\treturn false\n\t\t\t}\n\n\t\t\tjoin.Seq = join.rhs(join.lhs.Key(), join.lhs.Value())\n\t\t\tif join.Seq != nil {\n\t\t\t\treturn true\n\t\t\t}\n\t\t\tif !join.lhs.Next() {\n\t\t\t\treturn false\n\t\t\t}\n\t\t}\n\t}", 'ToSeq skips the element after a nil result')
mut('C15-fromseq-first-only', 'C15', PR, "\tjoin := &fromSeq[K1, K2, V2]{lhs: lhs, rhs: rhs}\n\tfor {\n\t\tjoin.Seq = join.rhs(join.lhs.Value())\n\t\tif join.Seq != nil {\n\t\t\treturn join\n\t\t}\n\n\t\tif !join.lhs.Next() {\n\t\t\treturn nil\n\t\t}\n\t}", "\tjoin := &fromSeq[K1, K2, V2]{lhs: lhs, rhs: rhs}\n\tjoin.Seq = join.rhs(join.lhs.Value())\n\tif join.Seq != nil {\n\t\treturn join\n\t}\n\treturn nil", 'FromSeq does not skip leading nil results')

A = 'duct/ast.go'; D = 'duct/duct.go'
mut('C16-append-into-closed', 'C16', A, "func (f *AstSeq) append(n Ast) bool {\n\tif !f.Deferred {\n\t\treturn false\n\t}", "func (f *AstSeq) append(n Ast) bool {\n\tif !f.Deferred && len(f.Seq) > 1 {\n\t\treturn false\n\t}", 'a closed context with at most one child still accepts appends')
mut('C16-unit-closes-outer', 'C16', A, "\tswitch v := f.Seq[len(f.Seq)-1].(type) {\n\tcase *AstSeq:\n\t\tif ok := v.unit(); ok {\n\t\t\treturn true\n\t\t}\n\t}\n\n\tif !f.Root {\n\t\tf.Deferred = false\n\t}\n\treturn true\n}\n\nfunc (f *AstSeq) append", "\tif !f.Root {\n\t\tf.Deferred = false\n\t\treturn true\n\t}\n\n\tswitch v := f.Seq[len(f.Seq)-1].(type) {\n\tcase *AstSeq:\n\t\tif ok := v.unit(); ok {\n\t\t\treturn true\n\t\t}\n\t}\n\treturn true\n}\n\nfunc (f *AstSeq) append", 'Unit closes the outermost open nested context')
mut('C16-apply-depth', 'C16', A, "\t\tif err := x.Apply(depth+1, v); err != nil {", "\t\tif err := x.Apply(depth, v); err != nil {")
mut('C16-leave-error-swallowed', 'C16', A, "\t} else {\n\t\tif err := v.OnLeaveSeq(depth, n); err != nil {\n\t\t\treturn err\n\t\t}\n\t}", "\t} else {\n\t\tv.OnLeaveSeq(depth, n)\n\t}")
mut('C16-liftf-types', 'C16', D, "\tjoin := &AstMap{\n\t\tTypeA: TypeOf[B](),\n\t\tTypeB: TypeOf[C](),\n\t\tF:     f.f,\n\t}\n\tinner.append(join)", "\tjoin := &AstMap{\n\t\tTypeA: TypeOf[[]B](),\n\t\tTypeB: TypeOf[C](),\n\t\tF:     f.f,\n\t}\n\tinner.append(join)", 'LiftF records the slice type instead of the element type')
mut('C16-typename-ptr', 'C16', D, "\tcase reflect.Ptr:\n\t\treturn \"*\" + typeName(t.Elem())", "\tcase reflect.Ptr:\n\t\treturn typeName(t.Elem())")

mut('C17-ord-swapped', 'C17', 'pure/ord/ord.go', "\tcase a < b:\n\t\treturn LT\n\tcase a > b:\n\t\treturn GT", "\tcase a < b:\n\t\treturn GT\n\tcase a > b:\n\t\treturn LT")
mut('C17-contramap-one-side', 'C17', 'pure/eq/eq.go', "\treturn f.Eq.Equal(\n\t\tf.ContraMap(a),\n\t\tf.ContraMap(b),\n\t)", "\treturn f.Eq.Equal(\n\t\tf.ContraMap(a),\n\t\tf.ContraMap(a),\n\t) && f.Eq.Equal(f.ContraMap(b), f.ContraMap(b))")
mut('C17-ord-contramap-swapped', 'C17', 'pure/ord/ord.go', "\treturn f.Ord.Compare(\n\t\tf.ContraMap(a),\n\t\tf.ContraMap(b),\n\t)", "\treturn f.Ord.Compare(\n\t\tf.ContraMap(b),\n\t\tf.ContraMap(a),\n\t)")
mut('C17-empty-zero', 'C17', 'pure/monoid/monoid.go', "func (m monoid[T]) Empty() T { return m.empty }", "func (m monoid[T]) Empty() T { var z T; return z }")
mut('C17-fromop-drops-empty', 'C17', 'pure/monoid/monoid.go', "\treturn monoid[T]{\n\t\tSemigroup: semigroup.From[T](combine),\n\t\tempty:     empty,\n\t}", "\treturn monoid[T]{\n\t\tSemigroup: semigroup.From[T](combine),\n\t}")

SK = 'internal/maplike/skiplist/skiplist.go'
mut('C18-remove-level', 'C18', SK, "\t\t\t\tif len(v.fingers) > level {", "\t\t\t\tif len(v.fingers)-1 > level {")
mut('C18-put-no-overwrite', 'C18', SK, "\tif v != nil && list.Ord.Compare(v.key, key) == ord.EQ {\n\t\tv.val = val\n\t\treturn list\n\t}", "\tif v != nil && list.Ord.Compare(v.key, key) == ord.EQ {\n\t\treturn list\n\t}")
mut('C18-skip-not-gt', 'C18', SK, "func (list *tSkipList[K, V]) skip(key K) (*tSkipNode[K, V], []*tSkipNode[K, V]) {\n\tpath := list.path\n\n\tnode := list.head\n\tnext := node.fingers\n\tfor level := list.levels - 1; level >= 0; level-- {\n\t\tfor next[level] != nil && list.Ord.Compare(next[level].key, key) == ord.LT {", "func (list *tSkipList[K, V]) skip(key K) (*tSkipNode[K, V], []*tSkipNode[K, V]) {\n\tpath := list.path\n\n\tnode := list.head\n\tnext := node.fingers\n\tfor level := list.levels - 1; level >= 0; level-- {\n\t\tfor next[level] != nil && list.Ord.Compare(next[level].key, key) != ord.GT {")
mut('C18-remove-only-level0', 'C18', SK, "\t\tfor level := 0; level < rank; level++ {\n\t\t\tif path[level].fingers[level] == v {", "\t\tfor level := 0; level < min(rank, 2); level++ {\n\t\t\tif path[level].fingers[level] == v {", 'fingers above level 1 keep pointing at the removed node')

mut('C19-list-tail-len', 'C19', 'internal/seq/list/list.go', "return Seq[A]{len: seq.len - 1, list: seq.list.tail}", "return Seq[A]{len: seq.len, list: seq.list.tail}")
mut('C19-slice-cons-append', 'C19', 'internal/seq/slice/slice.go', "\treturn append([]A{x}, seq...)", "\treturn append(seq[:0:0], append([]A{x}, seq...)...)", 'equivalent: must stay green')
mut('C19-fold-swapped', 'C19', 'internal/seq/foldable.go', "x = m.Combine(x, f.Seq.Head(s))", "x = m.Combine(f.Seq.Head(s), x)")
mut('C19-list-new-reversed', 'C19', 'internal/seq/list/list.go', "\tfor i := len(seq) - 1; i >= 0; i-- {\n\t\ttail = &list[A]{head: seq[i], tail: tail}\n\t}", "\tfor i := 0; i < len(seq); i++ {\n\t\ttail = &list[A]{head: seq[i], tail: tail}\n\t}")

mut('C20-pipe9-extra-call', 'C20', 'internal/pipe/pipe.go', "return func(a A) J { return ij(hi(gh(fg(ef(de(cd(bc(ab(a))))))))) }", "return func(a A) J { ab(a); return ij(hi(gh(fg(ef(de(cd(bc(ab(a))))))))) }")
mut('C20-pipe5-memo', 'C20', 'internal/pipe/pipe.go', "\treturn func(a A) F { return ef(de(cd(bc(ab(a))))) }", "\tvar done bool\n\tvar memo F\n\treturn func(a A) F {\n\t\tif !done {\n\t\t\tmemo, done = ef(de(cd(bc(ab(a))))), true\n\t\t}\n\t\treturn memo\n\t}", 'result of the first call is cached')

# ---- classes added in DESIGN 10.9: streams of `any`, concurrently alive instances, shared leaf buffers
mut('C05-take-drops-nil-any', 'C05', P, "\t\tvar a A\n\t\tfor a = range in {\n\n\t\t\tselect {\n\t\t\tcase out <- a:", "\t\tvar a A\n\t\tfor a = range in {\n\t\t\tif any(a) == nil {\n\t\t\t\tcontinue\n\t\t\t}\n\n\t\t\tselect {\n\t\t\tcase out <- a:", 'Take treats the nil interface as "no element"')
mut('C12-join-drops-nil-any', 'C12', P, "\t\tfor x := range c {\n\t\t\tselect {\n\t\t\tcase out <- x:", "\t\tfor x := range c {\n\t\t\tif any(x) == nil {\n\t\t\t\tcontinue\n\t\t\t}\n\t\t\tselect {\n\t\t\tcase out <- x:", 'Join drops nil-interface elements')
mut('C08-pump-drops-nil-any', 'C08', U, "\t\t\t\t\tflush()\n\t\t\t\t\treturn\n\t\t\t\t}\n\t\t\t\tenq(&x, mq)", "\t\t\t\t\tflush()\n\t\t\t\t\treturn\n\t\t\t\t}\n\t\t\t\tif any(x) == nil {\n\t\t\t\t\tcontinue\n\t\t\t\t}\n\t\t\t\tenq(&x, mq)", 'the pump drops nil-interface values')
mut('C09-map-drops-nil-result', 'C09', FK, "\t\t\tselect {\n\t\t\tcase out <- val:\n\t\t\tcase <-ctx.Done():\n\t\t\t\treturn\n\t\t\t}\n\t\t}\n\t}\n\n\twg.Add(par)", "\t\t\tif any(val) == nil {\n\t\t\t\tcontinue\n\t\t\t}\n\t\t\tselect {\n\t\t\tcase out <- val:\n\t\t\tcase <-ctx.Done():\n\t\t\t\treturn\n\t\t\t}\n\t\t}\n\t}\n\n\twg.Add(par)", 'fork.Map drops nil-interface results')
TAKE = "func Take[A any](ctx context.Context, in <-chan A, n int) <-chan A {\n\tout := make(chan A, cap(in))\n\n\tgo func() {\n\t\tdefer close(out)\n\n\t\tif n <= 0 {\n\t\t\treturn\n\t\t}\n\n\t\tvar a A\n\t\tfor a = range in {\n\n\t\t\tselect {\n\t\t\tcase out <- a:\n\t\t\tcase <-ctx.Done():\n\t\t\t\treturn\n\t\t\t}\n\n\t\t\tn--\n\t\t\tif n == 0 {\n\t\t\t\treturn\n\t\t\t}\n"
mut('C05-take-singleton-counter', 'C05', P, TAKE, "var (\n\ttakeMu   sync.Mutex\n\ttakeLeft int\n)\n\n" + TAKE.replace("\tgo func() {\n\t\tdefer close(out)\n\n\t\tif n <= 0 {", "\ttakeMu.Lock()\n\ttakeLeft = n\n\ttakeMu.Unlock()\n\n\tgo func() {\n\t\tdefer close(out)\n\n\t\tif n <= 0 {").replace("\t\t\tn--\n\t\t\tif n == 0 {", "\t\t\ttakeMu.Lock()\n\t\t\ttakeLeft--\n\t\t\tn = takeLeft\n\t\t\ttakeMu.Unlock()\n\t\t\tif n <= 0 {"), 'the countdown lives in a package-level variable: correct for one Take at a time')
JOIN = "func Join[A any](ctx context.Context, in ...<-chan A) <-chan A {\n\tvar wg sync.WaitGroup\n\tout := make(chan A, len(in))\n\n\tjoin := func(c <-chan A) {\n\t\tdefer wg.Done()\n\n\t\tfor x := range c {\n\t\t\tselect {\n\t\t\tcase out <- x:\n\t\t\tcase <-ctx.Done():\n\t\t\t\treturn\n\t\t\t}\n\t\t}\n\t}\n\n\twg.Add(len(in))\n\tfor _, c := range in {\n\t\tgo join(c)\n\t}\n\n\tgo func() {\n\t\twg.Wait()\n\t\tclose(out)\n\t}()\n\n\treturn out\n}"
mut('C12-join-global-live-count', 'C12', P, JOIN, "var (\n\tjoinMu   sync.Mutex\n\tjoinLive int\n)\n\nfunc Join[A any](ctx context.Context, in ...<-chan A) <-chan A {\n\tout := make(chan A, len(in))\n\tif len(in) == 0 {\n\t\tclose(out)\n\t\treturn out\n\t}\n\n\tjoin := func(c <-chan A) {\n\t\tdefer func() {\n\t\t\tjoinMu.Lock()\n\t\t\tjoinLive--\n\t\t\tlast := joinLive == 0\n\t\t\tjoinMu.Unlock()\n\t\t\tif last {\n\t\t\t\tclose(out)\n\t\t\t}\n\t\t}()\n\n\t\tfor x := range c {\n\t\t\tselect {\n\t\t\tcase out <- x:\n\t\t\tcase <-ctx.Done():\n\t\t\t\treturn\n\t\t\t}\n\t\t}\n\t}\n\n\tjoinMu.Lock()\n\tjoinLive += len(in)\n\tjoinMu.Unlock()\n\tfor _, c := range in {\n\t\tgo join(c)\n\t}\n\n\treturn out\n}", 'the last copier closes the output, counted in a package-level variable: correct for one Join at a time')
mut('C14-fromslice-clears-consumed', 'C14', SQ, "\ts.el = s.el[1:]\n\treturn true", "\tvar zero T\n\ts.el[0] = zero\n\ts.el = s.el[1:]\n\treturn true", "consumed slots of the caller's slice are zeroed")
mut('C08-queue-singleton-per-type', 'C08', Q, "func newq[A any]() *queue[A] {\n\tqueue := &queue[A]{}\n\tqueue.pool.New = func() interface{} { return &q[A]{} }\n\treturn queue\n}", "var queues sync.Map\n\nfunc newq[A any]() *queue[A] {\n\tkey := any((*A)(nil))\n\tif v, ok := queues.Load(key); ok {\n\t\treturn v.(*queue[A])\n\t}\n\tqueue := &queue[A]{}\n\tqueue.pool.New = func() interface{} { return &q[A]{} }\n\tqueues.Store(key, queue)\n\treturn queue\n}", 'one queue per element type, reused by every pipe of that type: correct while one pipe of a type is alive at a time')
mut('C09-map-global-live-count', 'C09', FK, "\twg.Add(par)\n\tfor i := 1; i <= par; i++ {\n\t\tgo pmap()\n\t}\n\n\tgo func() {\n\t\twg.Wait()\n\t\tclose(out)\n\t\tclose(exx)\n\t}()\n\n\treturn out, exx\n}\n\n// Partition", "\twg.Add(par)\n\tmapLiveMu.Lock()\n\tmapLive++\n\tmapLiveMu.Unlock()\n\tfor i := 1; i <= par; i++ {\n\t\tgo pmap()\n\t}\n\n\tgo func() {\n\t\twg.Wait()\n\t\tmapLiveMu.Lock()\n\t\tmapLive--\n\t\tlast := mapLive == 0\n\t\tmapLiveMu.Unlock()\n\t\tif last {\n\t\t\tclose(out)\n\t\t\tclose(exx)\n\t\t}\n\t}()\n\n\treturn out, exx\n}\n\nvar (\n\tmapLiveMu sync.Mutex\n\tmapLive   int\n)\n\n// Partition", 'only the last fork.Map alive closes its channels')
THR = "func Throttling[A any](ctx context.Context, in <-chan A, ops int, interval time.Duration) <-chan A {\n\tout := make(chan A, cap(in))\n\tctl := make(chan struct{}, ops)\n\n\tgo func() {\n\t\tdefer close(ctl)\n"
mut('C13-pacer-shared-per-rate', 'C13', P, THR, "var (\n\tpacersMu sync.Mutex\n\tpacers   = map[[2]int64]chan struct{}{}\n)\n\nfunc Throttling[A any](ctx context.Context, in <-chan A, ops int, interval time.Duration) <-chan A {\n\tout := make(chan A, cap(in))\n\tkey := [2]int64{int64(ops), int64(interval)}\n\tpacersMu.Lock()\n\tctl, shared := pacers[key]\n\tif !shared {\n\t\tctl = make(chan struct{}, ops)\n\t\tpacers[key] = ctl\n\t}\n\tpacersMu.Unlock()\n\n\tgo func() {\n\t\tif shared {\n\t\t\treturn\n\t\t}\n\t\tdefer func() {\n\t\t\tpacersMu.Lock()\n\t\t\tdelete(pacers, key)\n\t\t\tpacersMu.Unlock()\n\t\t}()\n\t\tdefer close(ctl)\n", 'one pacer per (ops, interval), shared by the Throttling stages alive at the same time')
EMIT = "func Emit[T any](ctx context.Context, cap int, frequency time.Duration, f F[int, T]) (<-chan T, <-chan error) {\n\tout := make(chan T, cap)\n\texx := f.errch(cap)\n\n\tgo func() {\n\t\tdefer close(out)\n\t\tdefer close(exx)\n\n\t\tvar (\n\t\t\tval T\n\t\t\terr error\n\t\t)\n\n\t\tfor i := 0; true; i++ {\n\t\t\ttime.Sleep(frequency)\n\n\t\t\tval, err = f.Apply(i)\n"
mut('C11-emit-shared-index', 'C11', P, EMIT, "var (\n\temitMu  sync.Mutex\n\temitSeq int\n)\n\n" + EMIT.replace("\tgo func() {\n\t\tdefer close(out)", "\temitMu.Lock()\n\temitSeq = 0\n\temitMu.Unlock()\n\n\tgo func() {\n\t\tdefer close(out)").replace("\t\tfor i := 0; true; i++ {\n\t\t\ttime.Sleep(frequency)\n\n\t\t\tval, err = f.Apply(i)\n", "\t\tfor {\n\t\t\ttime.Sleep(frequency)\n\n\t\t\temitMu.Lock()\n\t\t\ti := emitSeq\n\t\t\temitSeq++\n\t\t\temitMu.Unlock()\n\t\t\tval, err = f.Apply(i)\n"), 'the index lives in a package-level variable: correct for one Emit at a time')
mut('C05-fold-seeds-with-first-element', 'C05', P, "\t\tacc := m.Empty()\n\n\t\tvar x A\n\t\tfor x = range in {\n\t\t\tacc = m.Combine(acc, x)", "\t\tacc := m.Empty()\n\t\tfirst := true\n\n\t\tvar x A\n\t\tfor x = range in {\n\t\t\tif first {\n\t\t\t\tacc, first = x, false\n\t\t\t\tcontinue\n\t\t\t}\n\t\t\tacc = m.Combine(acc, x)", 'saves one Combine: empty <> x == x; the accumulator aliases the first element of the caller')
mut('C09-try-pipef-lifts', 'C09', 'pipe/fork/function.go', "func (f try[A, B]) pipef() pipe.F[A, B] {\n\treturn pipe.Try(f)", "func (f try[A, B]) pipef() pipe.F[A, B] {\n\treturn pipe.Lift(f)", 'fork.Try handed to a delegating stage aborts instead of continuing')
mut('C09-partition-nil-on-error', 'C09', FK, "\t\tsel := func(x bool, err error) chan<- A {\n\t\t\tif x && err == nil {\n\t\t\t\treturn lout\n\t\t\t}\n\t\t\treturn rout\n\t\t}", "\t\tsel := func(x bool, err error) chan<- A {\n\t\t\tif err != nil {\n\t\t\t\treturn nil\n\t\t\t}\n\t\t\tif x {\n\t\t\t\treturn lout\n\t\t\t}\n\t\t\treturn rout\n\t\t}", 'a failing predicate parks the worker on a nil channel')
mut('C06-filter-returns-on-error', 'C06', P, "\t\t\tif take, err := f.Apply(a); take && err == nil {\n\t\t\t\tselect {\n\t\t\t\tcase out <- a:\n\t\t\t\tcase <-ctx.Done():\n\t\t\t\t\treturn\n\t\t\t\t}\n\t\t\t}\n\t\t}\n\t}()\n\n\treturn out\n}\n\n// ForEach", "\t\t\ttake, err := f.Apply(a)\n\t\t\tif err != nil {\n\t\t\t\tselect {}\n\t\t\t}\n\t\t\tif take {\n\t\t\t\tselect {\n\t\t\t\tcase out <- a:\n\t\t\t\tcase <-ctx.Done():\n\t\t\t\t\treturn\n\t\t\t\t}\n\t\t\t}\n\t\t}\n\t}()\n\n\treturn out\n}\n\n// ForEach", 'Filter blocks forever when its predicate returns an error')
mut('C14-map-global-scratch', 'C14', SQ, "func (seq fmap[A, B]) Value() B {\n\treturn seq.f(seq.Seq.Value())\n}", "var mapScratch any\n\nfunc (seq fmap[A, B]) Value() B {\n\tmapScratch = seq.f(seq.Seq.Value())\n\treturn mapScratch.(B)\n}", 'a package-level scratch variable: visible only when independent iterators are used from several goroutines')
mut('C14-fromslice-long-block', 'C14', SQ, "\treturn &seqOf[T]{xs}\n}", "\tif len(xs) > 1024 {\n\t\txs = xs[:len(xs)-len(xs)%1024]\n\t}\n\treturn &seqOf[T]{xs}\n}", 'slices longer than a block lose their incomplete last block')
mut('C18-remove-top-level-only-when-many', 'C18', SK, "\t\tfor level := 0; level < rank; level++ {\n\t\t\tif path[level].fingers[level] == v {", "\t\tfor level := 0; level < min(rank, 5); level++ {\n\t\t\tif path[level].fingers[level] == v {", 'fingers above level 4 keep pointing at the removed node (needs many keys)')

EQUIVALENT = {'C02-no-container-check', 'C04-codec-get-skips-fmap', 'C06-throttle-data-no-ctx', 'C15-map-stale-key', 'C05-filter-or', 'C05-partition-swapped-capacity', 'C10-empty-counted-per-worker', 'C19-slice-cons-append', 'C04-setter-get-leaks'}


def run(m, tier):
    d = tempfile.mkdtemp(prefix='mut.', dir='/tmp')
    try:
        subprocess.run(['rsync', '-a', '--exclude', '.git', '/repo/', d + '/'], check=True)
        p = os.path.join(d, m['path'])
        s = open(p).read()
        if s.count(m['old']) != 1:
            return m, 'BAD-MUTANT', 'pattern occurs %d times' % s.count(m['old'])
        open(p, 'w').write(s.replace(m['old'], m['new']))
        env = dict(os.environ, VERIF_REPO=d)
        r = subprocess.run(['/verif/check', m['prop'], tier], env=env, stdout=subprocess.PIPE, stderr=subprocess.STDOUT, text=True)
        first = next((l for l in r.stdout.splitlines() if l.startswith('---') or l.startswith('INCONCLUSIVE')), '')[:180]
        verdict = {0: 'SURVIVED', 1: 'KILLED'}.get(r.returncode, 'INCONCLUSIVE')
        return m, verdict, first
    finally:
        k = hashlib.sha1(d.encode()).hexdigest()[:10]
        shutil.rmtree(d, ignore_errors=True)
        for x in ['/verif/harness/.stage/' + k, '/verif/harness/.bin/' + k, '/verif/.work/found-' + k, '/verif/.work/evidence-' + k]:
            shutil.rmtree(x, ignore_errors=True)
        for g in __import__('glob').glob('/verif/harness/gen/*-' + k):
            shutil.rmtree(g, ignore_errors=True)
        for ext in ('.mod', '.sum'):
            try:
                os.remove('/verif/harness/.mod/' + k + ext)
            except OSError:
                pass


def main():
    tier = sys.argv[1] if len(sys.argv) > 1 else 'quick'
    pref = sys.argv[2] if len(sys.argv) > 2 else ''
    todo = [m for m in M if m['id'].startswith(pref)]
    bad = 0
    with ThreadPoolExecutor(max_workers=6) as ex:
        for m, verdict, first in ex.map(lambda m: run(m, tier), todo):
            tag = ''
            if m['id'] in EQUIVALENT:
                tag = ' (semantically equivalent under the property: must survive)'
                if verdict == 'KILLED':
                    bad += 1
                    tag = ' !!! FALSE ALARM on an equivalent mutant'
            elif verdict != 'KILLED':
                bad += 1
            print('%-34s %-4s %-12s %s%s' % (m['id'], m['prop'], verdict, first, tag), flush=True)
    shutil.rmtree('/root/.cache/go-build-verif-scratch', ignore_errors=True)
    print('%d mutants, %d unexpected outcomes' % (len(todo), bad))
    return 1 if bad else 0


if __name__ == '__main__':
    sys.exit(main())
