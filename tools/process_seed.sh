#!/bin/sh
# tools/process_seed.sh <Cxx> <round-out-dir, e.g. /tmp/out4-C03> <letters...>: confirm each delivered change in a scratch worktree,
# store it under seeded/<Cxx>-<letter>, run the quick check of the property against it (3 seeds when missed), print one line each.
p=$1; out=$2; shift 2
cd "$(dirname "$0")/.."
for l in "$@"; do
  sid=$p-$l
  if [ ! -f $out/$l/patch.diff ]; then echo "$sid NO-PATCH"; continue; fi
  python3 tools/confirm_seed.py $sid $out/$l > /tmp/confirm-$sid.log 2>&1; rc=$?
  if [ $rc -ne 0 ]; then echo "$sid NOT-CONFIRMED (see /tmp/confirm-$sid.log): $(tail -3 /tmp/confirm-$sid.log | tr '\n' ' ' | cut -c1-300)"; continue; fi
  r=$(tools/seedrun.sh /verif/seeded/$sid/patch.diff quick $p)
  echo "$sid CONFIRMED; $r"
  case "$r" in *"rc=1"*) ;; *) for s in 2 3; do echo "   seed $s: $(VERIF_SEED=$s tools/seedrun.sh /verif/seeded/$sid/patch.diff quick $p)"; done;; esac
done
